//! Shared machinery of the dasp verification harness: run context, evidence
//! writer, known-findings handling, crash/hang guard, counting allocator and
//! the reference arithmetic. Deliberately independent of every dasp crate.

pub mod alloc;
pub mod ctx;
pub mod guard;
pub mod iterproto;
pub mod refmodel;

pub use ctx::{Ctx, FinalGuard, Tier};
pub use serde_json::{json, Value};

use std::panic::{catch_unwind, AssertUnwindSafe};

/// Run `f`, turning a panic into `Err(message)`. The panic hook is silenced by
/// `Ctx::new`, so nothing is printed.
pub fn catch<R>(f: impl FnOnce() -> R) -> Result<R, String> {
    match catch_unwind(AssertUnwindSafe(f)) {
        Ok(r) => Ok(r),
        Err(e) => {
            let msg = if let Some(s) = e.downcast_ref::<&str>() {
                s.to_string()
            } else if let Some(s) = e.downcast_ref::<String>() {
                s.clone()
            } else {
                "<non-string panic>".to_string()
            };
            Err(msg)
        }
    }
}

/// FNV-1a, used for observation fingerprints (deterministic across runs).
pub fn fnv(bytes: &[u8]) -> u64 {
    let mut h: u64 = 0xcbf29ce484222325;
    for b in bytes {
        h ^= *b as u64;
        h = h.wrapping_mul(0x100000001b3);
    }
    h
}

pub fn fnv_str(s: &str) -> u64 {
    fnv(s.as_bytes())
}

/// Mix a u64 into a running hash.
#[inline]
pub fn mix(h: u64, v: u64) -> u64 {
    let mut x = h ^ v.wrapping_mul(0x9E3779B97F4A7C15);
    x ^= x >> 32;
    x = x.wrapping_mul(0xD6E8FEB86659FD93);
    x ^= x >> 32;
    x
}
