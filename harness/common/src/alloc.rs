//! Counting global allocator. A binary opts in with
//! `#[global_allocator] static A: common::alloc::Counting = common::alloc::Counting;`
//! Counters are thread-local (const-initialised `Cell`s, no destructor, so
//! they are safe to touch from inside the allocator), which makes a bracket
//! round one operation immune to what other worker threads allocate.

use std::alloc::{GlobalAlloc, Layout, System};
use std::cell::Cell;

pub struct Counting;

thread_local! {
    static ALLOCS: Cell<u64> = const { Cell::new(0) };
    static REALLOCS: Cell<u64> = const { Cell::new(0) };
    static FREES: Cell<u64> = const { Cell::new(0) };
    static LIVE: Cell<i64> = const { Cell::new(0) };
}

#[inline]
fn bump(c: &'static std::thread::LocalKey<Cell<u64>>) {
    let _ = c.try_with(|x| x.set(x.get() + 1));
}
#[inline]
fn live(d: i64) {
    let _ = LIVE.try_with(|x| x.set(x.get() + d));
}

unsafe impl GlobalAlloc for Counting {
    unsafe fn alloc(&self, l: Layout) -> *mut u8 {
        bump(&ALLOCS);
        live(l.size() as i64);
        System.alloc(l)
    }
    unsafe fn alloc_zeroed(&self, l: Layout) -> *mut u8 {
        bump(&ALLOCS);
        live(l.size() as i64);
        System.alloc_zeroed(l)
    }
    unsafe fn dealloc(&self, p: *mut u8, l: Layout) {
        bump(&FREES);
        live(-(l.size() as i64));
        System.dealloc(p, l)
    }
    unsafe fn realloc(&self, p: *mut u8, l: Layout, new: usize) -> *mut u8 {
        bump(&REALLOCS);
        live(new as i64 - l.size() as i64);
        System.realloc(p, l, new)
    }
}

#[derive(Clone, Copy, Debug, PartialEq, Eq)]
pub struct Snapshot {
    pub allocs: u64,
    pub reallocs: u64,
    pub frees: u64,
    pub live: i64,
}

impl Snapshot {
    pub fn events(&self) -> u64 {
        self.allocs + self.reallocs + self.frees
    }
}

/// This thread's counters.
#[inline]
pub fn snapshot() -> Snapshot {
    Snapshot {
        allocs: ALLOCS.with(|c| c.get()),
        reallocs: REALLOCS.with(|c| c.get()),
        frees: FREES.with(|c| c.get()),
        live: LIVE.with(|c| c.get()),
    }
}

/// Allocator events (alloc + realloc + free) on this thread since `s`.
#[inline]
pub fn events_since(s: Snapshot) -> u64 {
    snapshot().events() - s.events()
}

/// Run `f` and return (result, number of allocator events it caused on this
/// thread).
#[inline]
pub fn bracket<R>(f: impl FnOnce() -> R) -> (R, u64) {
    let s = snapshot();
    let r = f();
    let e = events_since(s);
    (r, e)
}

/// Start-up self test: broken instrumentation must never turn into a verdict.
/// Returns Err(description) when the counting allocator is not installed or
/// miscounts.
pub fn self_test() -> Result<(), String> {
    let (_, e0) = bracket(|| std::hint::black_box(1 + 1));
    if e0 != 0 {
        return Err(format!("empty bracket counted {e0} events"));
    }
    let s = snapshot();
    let v: Vec<u64> = Vec::with_capacity(std::hint::black_box(17));
    let mid = snapshot();
    drop(std::hint::black_box(v));
    let end = snapshot();
    if mid.allocs != s.allocs + 1 || mid.live != s.live + 17 * 8 {
        return Err("Vec::with_capacity(17) was not counted as one alloc of 136 bytes (counting allocator not installed?)".into());
    }
    if end.frees != s.frees + 1 || end.live != s.live {
        return Err("dropping the Vec was not counted as one free".into());
    }
    let mut v: Vec<u8> = Vec::with_capacity(std::hint::black_box(8));
    let s = snapshot();
    v.reserve_exact(std::hint::black_box(4096));
    let e = events_since(s);
    drop(v);
    if e == 0 {
        return Err("growing a Vec was not counted".into());
    }
    Ok(())
}
