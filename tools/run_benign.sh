#!/bin/bash
# Run the property checks against every BENIGN change under /verif/benign/<name>/: a refactoring or
# re-implementation under which the property still holds. Expectation: exit 0 and no VIOLATION line
# (a false alarm otherwise).   tools/run_benign.sh [name ...]   (default: all)
# TIER=thorough runs the thorough tier instead of quick; ONLY_PRIMARY=1 skips the also_check list.
set -u
cd /verif
export VERIF_OUT=${VERIF_OUT:-/tmp/verif_seed_out}
mkdir -p $VERIF_OUT
tier=${TIER:-quick}
names=("$@")
[ ${#names[@]} -eq 0 ] && names=($(ls benign | grep -v RESULTS.md))
tmp=$(mktemp)
echo "| benign change | properties checked ($tier) | verdict |" > $tmp
echo "|---|---|---|" >> $tmp
for n in "${names[@]}"; do
  d=benign/$n
  [ -f $d/patch.diff ] || continue
  if [ -n "$(git -C /repo status --porcelain --untracked-files=no)" ]; then echo "/repo is dirty, refusing"; exit 2; fi
  prop=$(python3 -c "import json;print(json.load(open('$d/meta.json'))['property'])")
  extra=$(python3 -c "import json;print(' '.join(json.load(open('$d/meta.json')).get('also_check',[])))")
  [ "${ONLY_PRIMARY:-0}" = "1" ] && extra=""
  if ! git -C /repo apply --check $PWD/$d/patch.diff 2>/dev/null; then echo "| $n | $prop | patch does not apply |" >> $tmp; continue; fi
  git -C /repo apply $PWD/$d/patch.diff
  verdict=""
  for p in $prop $extra; do
    ./check $p $tier > /tmp/benign_check_$n.$p.log 2>&1
    rc=$?
    if [ $rc -eq 0 ] && ! grep -q "^VIOLATION" /tmp/benign_check_$n.$p.log; then verdict="$verdict $p:quiet";
    elif [ $rc -eq 1 ]; then verdict="$verdict $p:ALARM($(grep -m1 -o 'key=[^ ]*' /tmp/benign_check_$n.$p.log | head -1))";
    else verdict="$verdict $p:exit$rc"; fi
  done
  git -C /repo checkout -- .
  echo "| $n | $prop $extra | $verdict |" >> $tmp
  echo "$n: $verdict"
done
if [ $# -eq 0 ] && [ "$tier" = quick ]; then mv $tmp benign/RESULTS.md; cat benign/RESULTS.md; else cat $tmp; rm -f $tmp; fi
