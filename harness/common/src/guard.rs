//! Crash / hang guard. Each worker thread announces the case it is about to
//! run in a fixed slot (a memcpy, no syscall). A fatal signal on that thread
//! (SIGSEGV, SIGBUS, SIGILL, SIGFPE, SIGABRT — the latter also covers double
//! panics and allocation failure under the address-space cap) prints
//! `CRASH-CASE <case>` and exits 3; a watchdog thread that sees a slot without
//! a heartbeat for `HANG_SECS` prints `HANG-CASE <case>` and exits 4. The
//! `check` driver then replays that case in fresh children and only reports a
//! VIOLATION if it kills / stalls the child twice in a row.

use std::cell::{Cell, UnsafeCell};
use std::sync::atomic::{AtomicBool, AtomicU64, AtomicUsize, Ordering::*};

const NSLOTS: usize = 96;
const CAP: usize = 1000;

struct Slot {
    active: AtomicBool,
    seq: AtomicU64,
    len: AtomicUsize,
    buf: UnsafeCell<[u8; CAP]>,
}
unsafe impl Sync for Slot {}

#[allow(clippy::declare_interior_mutable_const)]
const EMPTY: Slot = Slot {
    active: AtomicBool::new(false),
    seq: AtomicU64::new(0),
    len: AtomicUsize::new(0),
    buf: UnsafeCell::new([0; CAP]),
};
static SLOTS: [Slot; NSLOTS] = [EMPTY; NSLOTS];
static NEXT_SLOT: AtomicUsize = AtomicUsize::new(0);
static HANG_SECS: AtomicU64 = AtomicU64::new(60);
static INSTALLED: AtomicBool = AtomicBool::new(false);

thread_local! {
    static MY_SLOT: Cell<usize> = const { Cell::new(usize::MAX) };
}

fn my_slot() -> Option<&'static Slot> {
    let mut i = MY_SLOT.with(|c| c.get());
    if i == usize::MAX {
        i = NEXT_SLOT.fetch_add(1, Relaxed);
        MY_SLOT.with(|c| c.set(i));
    }
    SLOTS.get(i)
}

/// Announce the case this thread is about to run.
pub fn enter(case: &str) {
    if let Some(s) = my_slot() {
        let b = case.as_bytes();
        let n = b.len().min(CAP);
        unsafe { std::ptr::copy_nonoverlapping(b.as_ptr(), s.buf.get() as *mut u8, n) };
        s.len.store(n, Relaxed);
        s.seq.fetch_add(1, Relaxed);
        s.active.store(true, Release);
    }
}

/// `enter` with an automatic `leave` when the returned value goes out of scope (end of the loop
/// body / closure / function that announced the case), so that a finished case can never be
/// mistaken for a hung one while the thread idles or the main thread waits for workers.
pub struct Scope(());
impl Drop for Scope {
    fn drop(&mut self) {
        leave();
    }
}
#[must_use]
pub fn scoped(case: &str) -> Scope {
    enter(case);
    Scope(())
}

/// The case the calling thread has announced and not yet retired, if any.
pub fn current_case() -> Option<String> {
    let i = MY_SLOT.with(|c| c.get());
    let s = SLOTS.get(i)?;
    if !s.active.load(Acquire) {
        return None;
    }
    let n = s.len.load(Relaxed).min(CAP);
    let b = unsafe { std::slice::from_raw_parts(s.buf.get() as *const u8, n) };
    Some(String::from_utf8_lossy(b).into_owned())
}

/// Heartbeat inside a long case.
#[inline]
pub fn tick() {
    if let Some(s) = my_slot() {
        s.seq.fetch_add(1, Relaxed);
    }
}

pub fn leave() {
    if let Some(s) = my_slot() {
        s.active.store(false, Release);
    }
}

pub fn set_hang_secs(n: u64) {
    HANG_SECS.store(n, Relaxed);
}

unsafe fn write_all(fd: i32, b: &[u8]) {
    let mut off = 0;
    while off < b.len() {
        let r = libc::write(fd, b[off..].as_ptr() as *const libc::c_void, b.len() - off);
        if r <= 0 {
            break;
        }
        off += r as usize;
    }
}

unsafe fn report(kind: &[u8], slot: Option<&Slot>, code: i32) -> ! {
    write_all(1, b"\n");
    write_all(1, kind);
    write_all(1, b" ");
    match slot {
        Some(s) if s.active.load(Acquire) => {
            let n = s.len.load(Relaxed).min(CAP);
            write_all(1, std::slice::from_raw_parts(s.buf.get() as *const u8, n));
        }
        _ => write_all(1, b"<no case announced>"),
    }
    write_all(1, b"\n");
    libc::_exit(code)
}

extern "C" fn on_fatal(sig: i32) {
    unsafe {
        let i = MY_SLOT.with(|c| c.get());
        let kind: &[u8] = match sig {
            libc::SIGSEGV => b"CRASH-CASE SIGSEGV",
            libc::SIGBUS => b"CRASH-CASE SIGBUS",
            libc::SIGILL => b"CRASH-CASE SIGILL",
            libc::SIGFPE => b"CRASH-CASE SIGFPE",
            libc::SIGABRT => b"CRASH-CASE SIGABRT",
            _ => b"CRASH-CASE SIG?",
        };
        report(kind, SLOTS.get(i), 3)
    }
}

/// Install the signal handlers and start the watchdog. Idempotent.
pub fn install() {
    if INSTALLED.swap(true, SeqCst) || cfg!(miri) {
        return; // under miri there are no signal handlers and no watchdog
    }
    unsafe {
        for sig in [libc::SIGSEGV, libc::SIGBUS, libc::SIGILL, libc::SIGFPE, libc::SIGABRT] {
            let mut sa: libc::sigaction = std::mem::zeroed();
            sa.sa_sigaction = on_fatal as extern "C" fn(i32) as usize;
            sa.sa_flags = libc::SA_ONSTACK | libc::SA_NODEFER;
            libc::sigemptyset(&mut sa.sa_mask);
            libc::sigaction(sig, &sa, std::ptr::null_mut());
        }
    }
    std::thread::Builder::new()
        .name("watchdog".into())
        .spawn(|| {
            let mut last = [(0u64, std::time::Instant::now()); NSLOTS];
            loop {
                std::thread::sleep(std::time::Duration::from_millis(500));
                let limit = HANG_SECS.load(Relaxed);
                let now = std::time::Instant::now();
                for (i, s) in SLOTS.iter().enumerate() {
                    if !s.active.load(Acquire) {
                        last[i] = (s.seq.load(Relaxed), now);
                        continue;
                    }
                    let q = s.seq.load(Relaxed);
                    if q != last[i].0 {
                        last[i] = (q, now);
                    } else if now.duration_since(last[i].1).as_secs() >= limit {
                        unsafe { report(b"HANG-CASE", Some(s), 4) }
                    }
                }
            }
        })
        .expect("spawn watchdog");
}
