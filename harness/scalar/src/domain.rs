//! Value domains of the integer sample formats, in "u-space": u = value - MIN,
//! 0 <= u < 2^bits. A domain is a list of pieces that are enumerated
//! completely and in ascending order: inclusive ranges, or lattices
//! `(top pattern << low) | fill` for every top pattern in a range and every
//! fill of a fixed sorted list. Nothing here is random.

use std::sync::Arc;

#[derive(Clone, Debug)]
pub enum Piece {
    Range(u64, u64),
    Lat { low: u32, fills: Arc<Vec<u64>>, p_lo: u64, p_hi: u64 },
}

impl Piece {
    #[inline(always)]
    pub fn for_each(&self, mut f: impl FnMut(u64)) {
        match self {
            Piece::Range(lo, hi) => {
                let mut u = *lo;
                loop {
                    f(u);
                    if u == *hi {
                        break;
                    }
                    u += 1;
                }
            }
            Piece::Lat { low, fills, p_lo, p_hi } => {
                let mut p = *p_lo;
                loop {
                    for &fl in fills.iter() {
                        f((p << low) | fl);
                    }
                    if p == *p_hi {
                        break;
                    }
                    p += 1;
                }
            }
        }
    }
    pub fn points(&self) -> u128 {
        match self {
            Piece::Range(lo, hi) => (*hi - *lo) as u128 + 1,
            Piece::Lat { fills, p_lo, p_hi, .. } => ((*p_hi - *p_lo) as u128 + 1) * fills.len() as u128,
        }
    }
    pub fn describe(&self) -> String {
        match self {
            Piece::Range(lo, hi) => format!("u in [{lo:#x}, {hi:#x}]"),
            Piece::Lat { low, fills, p_lo, p_hi } => format!("top patterns [{p_lo:#x}, {p_hi:#x}] << {low} | {} fills", fills.len()),
        }
    }
}

#[derive(Clone, Debug)]
pub struct Domain {
    pub bits: u32,
    pub pieces: Vec<Piece>,
    pub desc: String,
    pub exhaustive: bool,
}

fn mask(l: u32) -> u64 {
    if l >= 64 {
        u64::MAX
    } else {
        (1u64 << l) - 1
    }
}

/// low-bit fills: the quick set has every single bit plus 7 structured
/// patterns; the small set has 8 structured patterns.
pub fn fills(low: u32, small: bool) -> Vec<u64> {
    if low == 0 {
        return vec![0];
    }
    let ones = mask(low);
    let mut v = vec![0, 1, ones, ones >> 1, 1u64 << (low - 1), 0x5555_5555_5555_5555 & ones, 0xAAAA_AAAA_AAAA_AAAA & ones, (1u64 << (low - 1)) | 1];
    if !small {
        for i in 0..low {
            v.push(1u64 << i);
        }
    }
    v.sort();
    v.dedup();
    v
}

const CHUNK: u64 = 1 << 22;

impl Domain {
    pub fn new(bits: u32) -> Domain {
        Domain { bits, pieces: Vec::new(), desc: String::new(), exhaustive: false }
    }
    fn note(&mut self, s: &str) {
        if !self.desc.is_empty() {
            self.desc.push_str("; ");
        }
        self.desc.push_str(s);
    }
    /// every value of the format, split into chunks for parallel work
    pub fn complete(bits: u32) -> Domain {
        let mut d = Domain::new(bits);
        d.add_range(0, mask(bits));
        d.exhaustive = true;
        d.desc = format!("all 2^{bits} values");
        d
    }
    pub fn add_range(&mut self, lo: u64, hi: u64) {
        let hi = hi.min(mask(self.bits));
        let mut a = lo;
        loop {
            let b = if hi - a >= CHUNK { a + CHUNK - 1 } else { hi };
            self.pieces.push(Piece::Range(a, b));
            if b == hi {
                break;
            }
            a = b + 1;
        }
    }
    /// all 2^top top-bit patterns x the fill list of the remaining low bits
    pub fn add_lattice(&mut self, top: u32, small_fills: bool) {
        let top = top.min(self.bits);
        let low = self.bits - top;
        let f = Arc::new(fills(low, small_fills));
        let per = (CHUNK / f.len() as u64).max(1);
        let n = mask(top);
        let mut a = 0u64;
        loop {
            let b = if n - a >= per { a + per - 1 } else { n };
            self.pieces.push(Piece::Lat { low, fills: f.clone(), p_lo: a, p_hi: b });
            if b == n {
                break;
            }
            a = b + 1;
        }
        self.note(&format!("all 2^{top} top-bit patterns x {} low fills", f.len()));
    }
    /// `hi_fills` structured high patterns x every value of the low `low` bits
    pub fn add_low_complete(&mut self, low: u32) {
        let high = self.bits - low;
        let hf = fills(high, false);
        for h in &hf {
            self.add_range(h << low, (h << low) | mask(low));
        }
        self.note(&format!("{} high fills x all 2^{low} low patterns", hf.len()));
    }
    /// the w values at each end, around equilibrium, and 2^k +- w from both MIN and equilibrium
    pub fn add_boundaries(&mut self, w_ends: u64, w_pow: u64) {
        let m = mask(self.bits);
        let half = 1u64 << (self.bits - 1);
        self.add_range(0, w_ends.min(m));
        self.add_range(m - w_ends.min(m), m);
        self.add_range(half - w_ends.min(half), (half + w_ends).min(m));
        for k in 0..self.bits {
            let p = 1u64 << k;
            for c in [p, m - p + 1, half.wrapping_add(p) & m, half.wrapping_sub(p) & m] {
                let lo = c.saturating_sub(w_pow);
                let hi = c.saturating_add(w_pow).min(m);
                self.add_range(lo, hi);
            }
        }
        self.note(&format!("{w_ends} values at each end and around equilibrium, +-2^k +- {w_pow} for every k (from MIN and from equilibrium)"));
    }
    pub fn points(&self) -> u128 {
        self.pieces.iter().map(|p| p.points()).sum()
    }
}

/// The source domain used by the conversion sweeps for a format of `bits`.
pub fn int_source_domain(bits: u32, thorough: bool) -> Domain {
    if bits <= 24 || (bits == 32 && thorough) {
        return Domain::complete(bits);
    }
    let mut d = Domain::new(bits);
    if bits == 32 {
        d.add_lattice(16, false);
        d.add_low_complete(16);
        d.add_boundaries(1 << 16, 4096);
    } else {
        d.add_lattice(16, false);
        if thorough {
            d.add_lattice(32, true);
        }
        d.add_boundaries(1 << 16, 4096);
    }
    d
}
