//! C03 (frame half) — every Frame method of [S; N] for N = 1..=32 and all 14
//! sample formats equals the per-channel application of the corresponding
//! sample operation, in channel order. Built at opt-level 0 with debug
//! assertions and overflow checks.

use common::{catch, guard, json, Ctx};
use dasp_frame::{Frame, NChannels};
use dasp_sample::{Sample, I24, I48, U24, U48};
use wide::Mk;

type Bad = Option<(String, String)>;
fn bad(key: &str, msg: String) -> Bad {
    Some((key.to_string(), msg))
}

/// frame contents number `variant`: 0 = position-coded, 1..=8 rotations of the
/// boundary-value vector
fn content<S: Mk, const N: usize>(variant: usize) -> [S; N] {
    if variant == 0 {
        core::array::from_fn(|c| S::mk(c + 1))
    } else {
        let b = S::boundary();
        core::array::from_fn(|c| b[(c + variant - 1) % b.len()])
    }
}

fn frame_case<S: Mk, const N: usize>(variant: usize) -> Bad
where
    [S; N]: Frame<Sample = S, NumChannels = NChannels<N>, Signed = [S::Signed; N], Float = [S::Float; N], Channels = dasp_frame::Channels<[S; N]>>,
    [S::Signed; N]: Frame<Sample = S::Signed, NumChannels = NChannels<N>>,
    [S::Float; N]: Frame<Sample = S::Float, NumChannels = NChannels<N>>,
    S::Signed: PartialEq + std::fmt::Debug,
    S::Float: PartialEq + std::fmt::Debug,
{
    let tag = format!("[{}; {N}] content {variant}", S::NAME);
    let f: [S; N] = content::<S, N>(variant);
    let coded = variant == 0;
    // constants
    if <[S; N] as Frame>::CHANNELS != N || <[S; N] as Frame>::EQUILIBRIUM != [S::EQUILIBRIUM; N] {
        return bad("frame.const", format!("{tag}: CHANNELS / EQUILIBRIUM wrong"));
    }
    // map: per channel, in channel order
    let mut order = Vec::new();
    let m: [S; N] = f.map(|s| {
        order.push(s);
        s.mul_amp(S::gain(0.5))
    });
    let exp: [S; N] = core::array::from_fn(|c| f[c].mul_amp(S::gain(0.5)));
    if m != exp || order != f.to_vec() {
        return bad("frame.map", format!("{tag}: map gave {m:?} (closure saw {order:?}), per-channel application gives {exp:?}"));
    }
    // zip_map with a differently coded partner
    let g: [S; N] = core::array::from_fn(|c| S::mk(c + 50));
    let mut order = Vec::new();
    let z: [S; N] = f.zip_map(g, |a, b| {
        order.push((a, b));
        if order.len() % 2 == 0 {
            a
        } else {
            b
        }
    });
    let expz: [S; N] = core::array::from_fn(|c| if (c + 1) % 2 == 0 { f[c] } else { g[c] });
    let expo: Vec<(S, S)> = (0..N).map(|c| (f[c], g[c])).collect();
    if z != expz || order != expo {
        return bad("frame.zip_map", format!("{tag}: zip_map gave {z:?}, expected {expz:?}"));
    }
    // offset / scale / add / mul
    let off = if coded { S::small_offset() } else { S::zero_offset() };
    let r = catch(|| f.offset_amp(off));
    let e: [S; N] = core::array::from_fn(|c| f[c].add_amp(off));
    if r != Ok(e) {
        return bad("frame.offset_amp", format!("{tag}: offset_amp gave {r:?}, per-channel add_amp gives {e:?}"));
    }
    for gn in [0.5, 0.25, 0.0, 1.0] {
        let gv = S::gain(gn);
        let r = catch(|| f.scale_amp(gv));
        let e: [S; N] = core::array::from_fn(|c| f[c].mul_amp(gv));
        if r != Ok(e) {
            return bad("frame.scale_amp", format!("{tag}: scale_amp({gn}) gave {r:?}, per-channel mul_amp gives {e:?}"));
        }
    }
    // per-channel different offsets / gains: a mix-up of channels is visible
    let offs: [S::Signed; N] = core::array::from_fn(|c| if coded && c % 2 == 0 { S::small_offset() } else { S::zero_offset() });
    let r = catch(|| f.add_amp(offs));
    let e: [S; N] = core::array::from_fn(|c| f[c].add_amp(offs[c]));
    if r != Ok(e) {
        return bad("frame.add_amp", format!("{tag}: add_amp gave {r:?}, per-channel gives {e:?}"));
    }
    // gain frames: per-channel different, uniform (all 0, all 1, all 1/2), a single non-zero channel,
    // a single zero channel
    let mut gain_frames: Vec<[S::Float; N]> = vec![core::array::from_fn(|c| S::gain([0.5, 0.25, 1.0, 0.0, 0.125][c % 5]))];
    for g in [0.0, 1.0, 0.5] {
        gain_frames.push([S::gain(g); N]);
    }
    for k in [0, N / 2, N - 1] {
        gain_frames.push(core::array::from_fn(|c| S::gain(if c == k { 0.5 } else { 0.0 })));
        gain_frames.push(core::array::from_fn(|c| S::gain(if c == k { 0.0 } else { 0.5 })));
    }
    for gains in gain_frames {
        let r = catch(|| f.mul_amp(gains));
        let e: [S; N] = core::array::from_fn(|c| f[c].mul_amp(gains[c]));
        if r != Ok(e) {
            return bad("frame.mul_amp", format!("{tag}: mul_amp by the gain frame {gains:?} gave {r:?}, per-channel gives {e:?}"));
        }
    }
    // offset frames: all zero, and (position-coded contents only) uniform small / single channel
    let mut off_frames: Vec<[S::Signed; N]> = vec![[S::zero_offset(); N]];
    if coded {
        off_frames.push([S::small_offset(); N]);
        off_frames.push(core::array::from_fn(|c| if c == N - 1 { S::small_offset() } else { S::zero_offset() }));
    }
    for offs in off_frames {
        let r = catch(|| f.add_amp(offs));
        let e: [S; N] = core::array::from_fn(|c| f[c].add_amp(offs[c]));
        if r != Ok(e) {
            return bad("frame.add_amp", format!("{tag}: add_amp of the offset frame {offs:?} gave {r:?}, per-channel gives {e:?}"));
        }
    }
    // signed / float conversion
    let r: [S::Signed; N] = f.to_signed_frame();
    let e: [S::Signed; N] = core::array::from_fn(|c| f[c].to_signed_sample());
    if r != e {
        return bad("frame.to_signed", format!("{tag}: to_signed_frame gave {r:?}, per-channel gives {e:?}"));
    }
    let r: [S::Float; N] = f.to_float_frame();
    let e: [S::Float; N] = core::array::from_fn(|c| f[c].to_float_sample());
    if r != e {
        return bad("frame.to_float", format!("{tag}: to_float_frame gave {r:?}, per-channel gives {e:?}"));
    }
    // from_fn
    let mut idx = Vec::new();
    let r: [S; N] = Frame::from_fn(|i| {
        idx.push(i);
        f[i]
    });
    if r != f || idx != (0..N).collect::<Vec<_>>() {
        return bad("frame.from_fn", format!("{tag}: from_fn called with {idx:?} and built {r:?}"));
    }
    // from_samples with iterators of every length 0..=N+1
    for len in 0..=N + 1 {
        let src: Vec<S> = (0..len).map(|i| if i < N { f[i] } else { S::mk(99) }).collect();
        let mut it = src.iter().copied();
        let r: Option<[S; N]> = Frame::from_samples(&mut it);
        let left = it.len();
        let want_some = len >= N;
        // how much a FAILED construction consumes is not part of the property; a successful one must
        // take exactly the first N samples and leave the rest in the iterator
        if r.is_some() != want_some || (want_some && (r != Some(f) || left != len - N)) {
            return bad("frame.from_samples", format!("{tag}: from_samples over {len} samples gave {r:?} and left {left} unconsumed"));
        }
        // the same source through iterators with other size hints: (0, None), (0, Some(len)), (len, None)
        for kind in 0..3 {
            let mut pos = 0usize;
            let mut raw = || {
                let x = src.get(pos).copied();
                if x.is_some() {
                    pos += 1;
                }
                x
            };
            let r: Option<[S; N]> = match kind {
                0 => Frame::from_samples(&mut std::iter::from_fn(&mut raw)),
                1 => Frame::from_samples(&mut std::iter::from_fn(&mut raw).take(len + 5).filter(|_| true)),
                _ => Frame::from_samples(&mut src.iter().copied().chain(std::iter::from_fn(|| None))),
            };
            let consumed_ok = kind == 2 || !want_some || pos == N;
            if r.is_some() != want_some || !consumed_ok || (want_some && r != Some(f)) {
                return bad(
                    "frame.from_samples",
                    format!("{tag}: from_samples over {len} samples through an iterator with size hint {} gave {r:?} after consuming {pos}", ["(0, None)", "(0, Some(n))", "(n, None)"][kind]),
                );
            }
        }
        // a frame's own channel iterator is a sample iterator too
        if len == N {
            let mut ch = f.channels();
            let r: Option<[S; N]> = Frame::from_samples(&mut ch);
            if r != Some(f) {
                return bad("frame.from_samples", format!("{tag}: from_samples over frame.channels() gave {r:?}"));
            }
        }
    }
    // channels(): by value, exact size
    let mut ch = f.channels();
    let mut got = Vec::new();
    for c in 0..N {
        if ch.len() != N - c {
            return bad("frame.channels", format!("{tag}: channels().len() = {} after {c} items", ch.len()));
        }
        got.push(ch.next());
    }
    if got != f.iter().map(|s| Some(*s)).collect::<Vec<_>>() || ch.next().is_some() || ch.next().is_some() {
        return bad("frame.channels", format!("{tag}: channels() yielded {got:?}"));
    }
    // the whole Iterator protocol (nth, skip, step_by, size_hint, count, last) agrees with next()
    if let Some(m) = common::iterproto::check(&|| f.channels(), &f.to_vec(), false) {
        return bad("frame.channels", format!("{tag}: channels(): {m}"));
    }
    if let Some(m) = common::iterproto::check_clone(&|| f.channels(), &f.to_vec()) {
        return bad("frame.channels", format!("{tag}: channels(): {m}"));
    }
    if let Some(m) = common::iterproto::check(&|| f.channels_ref().copied(), &f.to_vec(), false) {
        return bad("frame.channels_ref", format!("{tag}: channels_ref(): {m}"));
    }
    // channels_ref forwards and backwards
    let fw: Vec<S> = f.channels_ref().copied().collect();
    let bw: Vec<S> = f.channels_ref().rev().copied().collect();
    let mut rv = f.to_vec();
    rv.reverse();
    if fw != f.to_vec() || bw != rv || f.channels_ref().len() != N {
        return bad("frame.channels_ref", format!("{tag}: channels_ref yielded {fw:?} forwards, {bw:?} backwards"));
    }
    // channels_mut writes through, forwards and backwards
    let mut w = f;
    for (c, s) in w.channels_mut().enumerate() {
        *s = S::mk(c + 70);
    }
    let e: [S; N] = core::array::from_fn(|c| S::mk(c + 70));
    if w != e {
        return bad("frame.channels_mut", format!("{tag}: writing through channels_mut gave {w:?}"));
    }
    for (c, s) in w.channels_mut().rev().enumerate() {
        *s = S::mk(c + 20);
    }
    let e: [S; N] = core::array::from_fn(|c| S::mk(N - 1 - c + 20));
    if w != e {
        return bad("frame.channels_mut", format!("{tag}: writing through channels_mut().rev() gave {w:?}"));
    }
    // channel(i), channel_mut(i), unchecked
    let mut w = f;
    for i in 0..=N + 1 {
        let e = if i < N { Some(f[i]) } else { None };
        if f.channel(i).copied() != e {
            return bad("frame.channel", format!("{tag}: channel({i}) = {:?}, expected {e:?}", f.channel(i)));
        }
        match w.channel_mut(i) {
            Some(s) if i < N => {
                if *s != f[i] {
                    return bad("frame.channel_mut", format!("{tag}: channel_mut({i}) points at {:?}", *s));
                }
                *s = S::mk(i + 120);
            }
            None if i >= N => {}
            _ => return bad("frame.channel_mut", format!("{tag}: channel_mut({i}) is_some mismatch")),
        }
        if i < N {
            let u = unsafe { *f.channel_unchecked(i) };
            if u != f[i] {
                return bad("frame.channel_unchecked", format!("{tag}: channel_unchecked({i}) = {u:?}"));
            }
        }
    }
    let e: [S; N] = core::array::from_fn(|c| S::mk(c + 120));
    if w != e {
        return bad("frame.channel_mut", format!("{tag}: writes through channel_mut gave {w:?}"));
    }
    None
}

type CaseFn = fn(usize) -> Bad;

macro_rules! table_n {
    ($v:ident, $S:ty; $($N:literal)*) => { $( $v.push((<$S as Mk>::NAME, $N as usize, frame_case::<$S, $N> as CaseFn)); )* };
}
macro_rules! table {
    ($v:ident; $($S:ty)*) => { $( table_n!($v, $S; 1 2 3 4 5 6 7 8 9 10 11 12 13 14 15 16 17 18 19 20 21 22 23 24 25 26 27 28 29 30 31 32); )* };
}

fn main() {
    let ctx = Ctx::new("C03", "frames");
    let mut table: Vec<(&'static str, usize, CaseFn)> = Vec::new();
    table!(table; i8 u8 i16 u16 I24 U24 i32 u32 I48 U48 i64 u64 f32 f64);
    if let Some(v) = ctx.replay_case() {
        let _guard_scope = guard::scoped(&v.to_string());
        let fmt = v["fmt"].as_str().unwrap_or("");
        let n = v["n"].as_u64().unwrap_or(0) as usize;
        let var = v["variant"].as_u64().unwrap_or(0) as usize;
        let r = match table.iter().find(|(f, nn, _)| *f == fmt && *nn == n) {
            Some((_, _, f)) => catch(|| f(var)).unwrap_or_else(|p| bad("frame.panic", format!("panic: {p}"))),
            None => bad("frame", format!("no instantiation for {fmt} x {n}")),
        };
        ctx.finish_replay(r.map(|(k, m)| format!("{k}: {m}")));
    }
    ctx.rule("frames: every (sample format of 14, N in 1..=32) x 9 contents (position-coded + 8 rotations of the boundary-value vector MIN/MAX/EQ/...): map, zip_map (closure call order recorded), offset_amp, scale_amp(4 gains), add_amp and mul_amp with argument frames that are per-channel different / uniform (all 0, all 1, all 1/2) / a single non-zero or single zero channel, to_signed_frame, to_float_frame, EQUILIBRIUM, CHANNELS, from_fn (index order), from_samples over iterators of every length 0..=N+1 and four kinds of size hint, plus frame.channels() (Some iff len>=N; on success exactly the first N samples are taken), channels() and channels_ref() under the whole Iterator protocol (size_hint bounds, nth / skip / step_by / count / last after every cursor position, against next()), channels_ref/channels_mut forwards and backwards, channel(i)/channel_mut(i) for i in 0..=N+1, channel_unchecked; oracle = the array built by applying the sample operation to channel 0..N-1 in order; distinct by (format, N, content)");
    let mut evals = 0u64;
    for (fmt, n, f) in &table {
        for variant in 0..9usize {
            let case = json!({"sys":"frame","fmt":fmt,"n":n,"variant":variant});
            let _guard_scope = guard::scoped(&case.to_string());
            evals += 1;
            let f = *f;
            match catch(|| f(variant)) {
                Ok(None) => ctx.observe(common::fnv_str(&format!("{fmt}{n}/{variant}"))),
                Ok(Some((k, m))) => ctx.violation(&k, case, m, Some(&|| f(variant).map(|x| x.1))),
                Err(p) => ctx.violation("frame.panic", case, format!("[{fmt}; {n}] content {variant}: panicked: {p}"), None),
            }
        }
    }
    ctx.add_evals(evals);
    ctx.set("frame_instantiations", json!(table.len()));
    ctx.set("exhaustive", json!(true));
    ctx.set("exhaustive_scope", json!("widths 1..=32 x 14 formats x every Frame method; contents are position-coded / boundary vectors (frame operations never inspect values except through the closure)"));
    ctx.sample(json!({"sys":"frame","fmt":"U24","n":7,"variant":0}));
    ctx.sample(json!({"sys":"frame","fmt":"i64","n":32,"variant":3}));
    ctx.finish();
}
