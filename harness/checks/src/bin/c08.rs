//! C08 — rate converter: exact rational source positions, pull counts of an
//! instrumented source, floor / linear outputs, exhaustion.

use checks::probe::{Gen, Probe};
use common::refmodel::decompose;
use common::{catch, guard, json, Ctx, Value};
use dasp_frame::Frame;
use dasp_interpolate::{floor::Floor, linear::Linear, Interpolator};
use dasp_signal::interpolate::Converter;
use dasp_signal::Signal;
use rayon::prelude::*;
use std::fmt::Debug;
use std::sync::atomic::{AtomicU64, Ordering::Relaxed};

const SCALE: u32 = 100; // positions are i128 multiples of 2^-100

fn rat(x: f64) -> i128 {
    let (neg, m, e) = decompose(x);
    let s = e + SCALE as i32;
    assert!(s >= 0 && s < 60, "ratio {x} outside the representable alphabet");
    let v = (m as i128) << s;
    if neg {
        -v
    } else {
        v
    }
}
fn rat_floor(p: i128) -> i128 {
    p >> SCALE
}
fn rat_to_f64(p: i128) -> f64 {
    p as f64 / (1u128 << SCALE) as f64
}

trait CF: Frame + Debug + PartialEq + Send + Sync + 'static {
    const NAME: &'static str;
    const INT: bool;
    const EPS: f64;
    fn ramp(i: usize) -> Self;
    fn alt(i: usize) -> Self;
    fn vals(self) -> Vec<f64>; // raw values (native units)
}
impl CF for f64 {
    const NAME: &'static str = "f64";
    const INT: bool = false;
    const EPS: f64 = f64::EPSILON;
    fn ramp(i: usize) -> f64 {
        (i as f64 + 1.0) / 16.0
    }
    fn alt(i: usize) -> f64 {
        if i % 2 == 0 {
            0.9
        } else {
            -1.0
        }
    }
    fn vals(self) -> Vec<f64> {
        vec![self]
    }
}
impl CF for [f32; 2] {
    const NAME: &'static str = "[f32;2]";
    const INT: bool = false;
    const EPS: f64 = f32::EPSILON as f64;
    fn ramp(i: usize) -> Self {
        [(i as f32 + 1.0) / 16.0, -(i as f32 + 1.0) / 32.0]
    }
    fn alt(i: usize) -> Self {
        if i % 2 == 0 {
            [0.9, -1.0]
        } else {
            [-1.0, 0.7]
        }
    }
    fn vals(self) -> Vec<f64> {
        vec![self[0] as f64, self[1] as f64]
    }
}
impl CF for [i16; 2] {
    const NAME: &'static str = "[i16;2]";
    const INT: bool = true;
    const EPS: f64 = 0.0;
    fn ramp(i: usize) -> Self {
        // (wraps for long sources: any i16 pattern will do, both sides see the same values)
        [(i as i16).wrapping_add(1).wrapping_mul(1000), (i as i16).wrapping_add(1).wrapping_mul(333).wrapping_neg()]
    }
    fn alt(i: usize) -> Self {
        if i % 2 == 0 {
            [i16::MAX, i16::MIN]
        } else {
            [i16::MIN, i16::MAX]
        }
    }
    fn vals(self) -> Vec<f64> {
        vec![self[0] as f64, self[1] as f64]
    }
}

#[derive(Clone, Debug)]
enum Plan {
    /// constant ratio through a constructor: 0 scale_playback_hz, 1 from_hz_to_hz, 2 scale_sample_hz, 3 Signal::scale_hz, 4 Signal::from_hz_to_hz
    Const(f64, u8),
    /// per-frame ratios through mul_hz
    PerFrame(Vec<f64>),
    /// constant r1, then a setter before output k: (r1, k, r2, which setter 0..3)
    Switch(f64, usize, f64, u8),
}

fn plan_json(p: &Plan) -> Value {
    match p {
        Plan::Const(r, c) => json!({"kind":"const","r":r.to_bits().to_string(),"ctor":c}),
        Plan::PerFrame(v) => json!({"kind":"per_frame","r":v.iter().map(|x| x.to_bits().to_string()).collect::<Vec<_>>()}),
        Plan::Switch(a, k, b, s) => json!({"kind":"switch","r1":a.to_bits().to_string(),"k":k,"r2":b.to_bits().to_string(),"setter":s}),
    }
}
fn bits(v: &Value) -> f64 {
    f64::from_bits(v.as_str().and_then(|s| s.parse().ok()).unwrap_or(0))
}
fn plan_from(v: &Value) -> Option<Plan> {
    Some(match v["kind"].as_str()? {
        "const" => Plan::Const(bits(&v["r"]), v["ctor"].as_u64()? as u8),
        "per_frame" => Plan::PerFrame(v["r"].as_array()?.iter().map(bits).collect()),
        _ => Plan::Switch(bits(&v["r1"]), v["k"].as_u64()? as usize, bits(&v["r2"]), v["setter"].as_u64()? as u8),
    })
}

type Bad = (String, String);

enum Sig<F: CF, I: Interpolator<Frame = F>> {
    Conv(Converter<Probe<F>, I>),
    Mul(dasp_signal::MulHz<Probe<F>, Probe<f64>, I>),
}

fn dyadic(r: f64) -> bool {
    // exact in the f64 accumulator for the run lengths used here
    let (_, m, e) = decompose(r);
    m == 0 || e + (m.trailing_zeros() as i32) >= -8
}

/// One run. Returns a fingerprint of the outputs.
fn run_with<F: CF, I: Interpolator<Frame = F>>(lin: bool, len: usize, alt: bool, plan: &Plan, mk: impl FnOnce(&mut Probe<F>) -> I) -> Result<u64, Bad>
where
    F::Sample: dasp_sample::Duplex<f64>,
{
    let frames: Vec<F> = (0..len).map(|i| if alt { F::alt(i) } else { F::ramp(i) }).collect();
    let at = |i: i128| -> F {
        if i >= 0 && (i as usize) < len {
            frames[i as usize]
        } else {
            F::EQUILIBRIUM
        }
    };
    let (mut probe, c) = Probe::new(frames.clone());
    let interp = mk(&mut probe);
    let primed = c.pulls();
    let tag = format!("{} {} len={len} {} plan {:?}", F::NAME, if lin { "linear" } else { "floor" }, if alt { "alt" } else { "ramp" }, plan);
    // effective ratio sequence and the signal
    let mut ratio_now: f64;
    let mut per_frame: Option<Vec<f64>> = None;
    let mut sig: Sig<F, I> = match plan {
        Plan::Const(r, ctor) => {
            ratio_now = match ctor {
                1 | 4 => (r * 48_000.0) / 48_000.0,
                2 => 1.0 / (1.0 / r),
                _ => *r,
            };
            Sig::Conv(match ctor {
                0 => Converter::scale_playback_hz(probe, interp, *r),
                1 => Converter::from_hz_to_hz(probe, interp, r * 48_000.0, 48_000.0),
                2 => Converter::scale_sample_hz(probe, interp, 1.0 / r),
                3 => probe.scale_hz(interp, *r),
                _ => probe.from_hz_to_hz(interp, r * 48_000.0, 48_000.0),
            })
        }
        Plan::Switch(r1, _, _, _) => {
            ratio_now = *r1;
            Sig::Conv(Converter::scale_playback_hz(probe, interp, *r1))
        }
        Plan::PerFrame(v) => {
            ratio_now = 1.0;
            per_frame = Some(v.clone());
            let (ctl, _) = Probe::new(v.clone());
            Sig::Mul(probe.mul_hz(interp, ctl))
        }
    };
    let exact = match plan {
        Plan::Const(..) => dyadic(ratio_now),
        Plan::Switch(a, _, b, _) => dyadic(*a) && dyadic(*b),
        Plan::PerFrame(v) => v.iter().all(|r| dyadic(*r)),
    };
    let r_left = len.saturating_sub(primed) as i128;
    let max_out = match plan {
        Plan::PerFrame(v) => v.len(),
        Plan::Const(..) => ((len + 3) as f64 / ratio_now).ceil() as usize + 8,
        Plan::Switch(a, _, b, _) => ((len + 3) as f64 / a.min(*b)).ceil() as usize + 16,
    };
    let mut p: i128 = 0; // exact position before output n
    let mut fp = 0u64;
    let mut n = 0usize;
    let mut after_exhaust = 0;
    let mut count_until_exhausted: Option<usize> = None;
    while n < max_out {
        if let (Plan::Switch(_, k, r2, setter), Sig::Conv(cv)) = (plan, &mut sig) {
            if n == *k {
                match setter {
                    0 => cv.set_playback_hz_scale(*r2),
                    1 => cv.set_hz_to_hz(r2 * 44_100.0, 44_100.0),
                    _ => cv.set_sample_hz_scale(1.0 / r2),
                }
                ratio_now = match setter {
                    0 => *r2,
                    1 => (r2 * 44_100.0) / 44_100.0,
                    _ => 1.0 / (1.0 / r2),
                };
            }
        }
        if let Some(v) = &per_frame {
            ratio_now = v[n];
        }
        let pulls_before = (c.pulls() - primed) as i128;
        let exh = match &sig {
            Sig::Conv(cv) => cv.is_exhausted(),
            Sig::Mul(m) => m.is_exhausted(),
        };
        let out = match &mut sig {
            Sig::Conv(cv) => cv.next(),
            Sig::Mul(m) => m.next(),
        };
        let pulls = (c.pulls() - primed) as i128;
        // pulls vs floor(P_n)
        let want = rat_floor(p);
        if exact {
            if pulls != want {
                return Err(("conv.pulls".into(), format!("{tag}: before output {n} the converter has pulled {pulls} source frames beyond priming, floor(P_n) = {want} (P_n = {})", rat_to_f64(p))));
            }
        } else {
            let d = ((n as f64 + 1.0) * 2f64.powi(-50) * rat_to_f64(p).max(1.0) * 2f64.powi(SCALE as i32)) as i128;
            if pulls != rat_floor(p - d) && pulls != rat_floor(p + d) && pulls != want {
                return Err(("conv.pulls".into(), format!("{tag}: before output {n} the converter has pulled {pulls} source frames, floor(P_n) = {want} (P_n = {}, float tolerance applied)", rat_to_f64(p))));
            }
        }
        // exhaustion flag
        let src_exh = (pulls_before as usize + primed) >= len;
        let exp_exh = src_exh && pulls > pulls_before;
        let exp_exh = match &sig {
            Sig::Mul(_) => exp_exh || per_frame.as_ref().map(|v| n >= v.len()).unwrap_or(false),
            _ => exp_exh,
        };
        if exh != exp_exh {
            return Err(("conv.exhausted".into(), format!("{tag}: is_exhausted() before output {n} = {exh}; source exhausted = {src_exh}, that output pulled {} frame(s)", pulls - pulls_before)));
        }
        if exh && count_until_exhausted.is_none() {
            count_until_exhausted = Some(n);
        }
        // the output frame
        let base = pulls + primed as i128;
        let (l, r) = if lin { (at(base - 2), at(base - 1)) } else { (at(base - 1), at(base - 1)) };
        let frac = rat_to_f64(p - (pulls << SCALE));
        if !lin {
            if out != l {
                return Err(("conv.floor".into(), format!("{tag}: output {n} = {out:?}, the source frame at the current index {} is {l:?}", base - 1)));
            }
        } else {
            let (lv, rv, ov) = (l.vals(), r.vals(), out.vals());
            for ch in 0..lv.len() {
                let exact_v = lv[ch] + (rv[ch] - lv[ch]) * frac;
                let slack = if exact { 0.0 } else { (rv[ch] - lv[ch]).abs() * (n as f64 + 2.0) * 2f64.powi(-49) };
                let tol = if F::INT { 1.0 + 1e-6 + slack } else { 4.0 * F::EPS * exact_v.abs().max(lv[ch].abs()).max(rv[ch].abs()) + slack + 1e-300 };
                if (ov[ch] - exact_v).abs() > tol || ov[ch] < lv[ch].min(rv[ch]) - tol || ov[ch] > lv[ch].max(rv[ch]) + tol {
                    return Err(("conv.linear".into(), format!("{tag}: output {n} channel {ch} = {}, straight-line blend of {} and {} at fraction {frac} is {exact_v}", ov[ch], lv[ch], rv[ch])));
                }
            }
            if frac == 0.0 && exact && out != l {
                return Err(("conv.linear".into(), format!("{tag}: output {n} = {out:?} at fraction 0, expected exactly {l:?}")));
            }
        }
        for v in out.vals() {
            fp = common::mix(fp, v.to_bits());
        }
        p += rat(ratio_now);
        n += 1;
        if count_until_exhausted.is_some() {
            after_exhaust += 1;
            if after_exhaust > 3 {
                break;
            }
        }
        if n >= 40 && !matches!(plan, Plan::PerFrame(_)) && ratio_now * (n as f64) > (len + 8) as f64 * 4.0 {
            break;
        }
    }
    // output count for a constant ratio
    if let (Plan::Const(..), Some(cnt)) = (plan, count_until_exhausted) {
        let rr = rat(ratio_now);
        let need = (r_left + 1) << SCALE;
        let lo = (need + rr - 1) / rr;
        if exact && !(cnt as i128 == lo || cnt as i128 == lo + 1) {
            return Err(("conv.count".into(), format!("{tag}: {cnt} outputs before exhaustion, expected ceil((R+1)/r) = {lo} or one more (R = {r_left})")));
        }
        if !exact && ((cnt as i128) < lo - 1 || cnt as i128 > lo + 2) {
            return Err(("conv.count".into(), format!("{tag}: {cnt} outputs before exhaustion, expected about ceil((R+1)/r) = {lo}")));
        }
    }
    if let (Plan::Const(..), None) = (plan, count_until_exhausted) {
        if n < max_out {
            // horizon cut: fine
        } else {
            return Err(("conv.count".into(), format!("{tag}: never reported exhaustion within {max_out} outputs")));
        }
    }
    Ok(fp)
}

fn run<F: CF>(lin: bool, len: usize, alt: bool, plan: &Plan) -> Result<u64, Bad>
where
    F::Sample: dasp_sample::Duplex<f64>,
{
    if lin {
        run_with::<F, Linear<F>>(true, len, alt, plan, |p| {
            let l = p.next();
            let r = p.next();
            Linear::new(l, r)
        })
    } else {
        run_with::<F, Floor<F>>(false, len, alt, plan, |p| Floor::new(p.next()))
    }
}

fn dispatch(fmt: &str, lin: bool, len: usize, alt: bool, plan: &Plan) -> Result<u64, Bad> {
    match fmt {
        "f64" => run::<f64>(lin, len, alt, plan),
        "[f32;2]" => run::<[f32; 2]>(lin, len, alt, plan),
        "[i16;2]" => run::<[i16; 2]>(lin, len, alt, plan),
        _ => Err(("conv".into(), "unknown format".into())),
    }
}

fn ctor_panics() -> Option<Bad> {
    for bad in [0.0, -1.0, -0.0, f64::NAN] {
        let r = catch(|| {
            let (p, _) = Probe::new(vec![0.0f64; 2]);
            Converter::scale_playback_hz(p, Floor::new(0.0), bad)
        });
        if r.is_ok() {
            return Some(("conv.ctor".into(), format!("scale_playback_hz(scale = {bad}) did not panic")));
        }
        let r = catch(|| {
            let (p, _) = Probe::new(vec![0.0f64; 2]);
            Converter::from_hz_to_hz(p, Floor::new(0.0), bad, 44_100.0)
        });
        if r.is_ok() {
            return Some(("conv.ctor".into(), format!("from_hz_to_hz(source_hz = {bad}) did not panic")));
        }
    }
    None
}

/// A cloneable interpolator (the stock ones do not implement Clone): holds the newest source frame.
#[derive(Clone)]
struct Hold(f64);
impl Interpolator for Hold {
    type Frame = f64;
    fn interpolate(&self, _x: f64) -> f64 {
        self.0
    }
    fn next_source_frame(&mut self, f: f64) {
        self.0 = f;
    }
    fn reset(&mut self) {
        self.0 = 0.0;
    }
}

/// Clone mid-history: after k outputs the converter is replaced by its copy -- taken through
/// clone() or through clone_from() into a copy made at the start -- which must go on exactly
/// like the original (outputs, frames pulled, exhaustion), for constant and per-frame ratios.
fn clone_case(r: f64, k: usize, via_clone_from: bool, mul: bool) -> Option<Bad> {
    let frames: Vec<f64> = (0..40).map(|n| (n + 1) as f64).collect();
    let ctl: Vec<f64> = (0..24).map(|n| [r, 1.0, 2.0 * r, 0.5][n % 4]).collect();
    let run = |swap: bool| -> Vec<(u64, usize, bool)> {
        let (p, c) = Probe::new(frames.clone());
        let mut out = Vec::new();
        macro_rules! drive {
            ($conv:expr) => {{
                let mut conv = $conv;
                let mut early = conv.clone();
                for n in 0..24 {
                    if swap && n == k {
                        if via_clone_from {
                            early.clone_from(&conv);
                            conv = early.clone();
                        } else {
                            let c2 = conv.clone();
                            conv = c2;
                        }
                    }
                    let f = conv.next();
                    out.push((f.to_bits(), c.pulls(), conv.is_exhausted()));
                }
            }};
        }
        if mul {
            let (m, _) = Probe::new(ctl.clone());
            drive!(p.mul_hz(Hold(0.0), m));
        } else {
            drive!(Converter::scale_playback_hz(p, Hold(0.0), r));
        }
        out
    };
    let (a, b) = (run(false), run(true));
    for n in 0..a.len() {
        if a[n] != b[n] {
            return Some(("conv.clone".into(), format!("{} ratio {r}: converter replaced by its copy (through {}) after {k} outputs: output {n} = {} with {} frames pulled and is_exhausted() = {}, the original gives {} / {} / {}", if mul { "mul_hz" } else { "scale_playback_hz" }, if via_clone_from { "clone_from into an early copy" } else { "clone" }, f64::from_bits(b[n].0), b[n].1, b[n].2, f64::from_bits(a[n].0), a[n].1, a[n].2)));
        }
    }
    None
}

/// long run on an infinite ramp: pulls and linear blend with the tolerant oracle
fn long_run(r: f64, outputs: usize) -> Option<Bad> {
    let (mut g, c) = Gen::new(|n| (n % 1024) as f64 / 1024.0);
    let l = g.next();
    let rr = g.next();
    let mut cv = Converter::scale_playback_hz(g, Linear::new(l, rr), r);
    let mut p: i128 = 0;
    let step = rat(r);
    let at = |i: i128| ((i.max(0) as usize) % 1024) as f64 / 1024.0;
    for n in 0..outputs {
        let out = cv.next();
        let pulls = c.pulls() as i128 - 2;
        let d = ((n as f64 + 1.0) * 2f64.powi(-50) * rat_to_f64(p).max(1.0) * 2f64.powi(SCALE as i32)) as i128;
        if pulls != rat_floor(p) && pulls != rat_floor(p - d) && pulls != rat_floor(p + d) {
            return Some(("conv.pulls".into(), format!("long run r={r}: before output {n} pulled {pulls}, floor(P_n) = {}", rat_floor(p))));
        }
        let (lv, rv) = (at(pulls), at(pulls + 1));
        let frac = rat_to_f64(p - (pulls << SCALE));
        let e = lv + (rv - lv) * frac;
        let tol = 1e-9 + (rv - lv).abs() * (n as f64 + 2.0) * 2f64.powi(-49);
        if (out - e).abs() > tol {
            return Some(("conv.linear".into(), format!("long run r={r}: output {n} = {out}, blend of {lv} and {rv} at {frac} is {e}")));
        }
        p += step;
        if n % 65536 == 0 {
            guard::tick();
        }
    }
    None
}

fn main() {
    let ctx = Ctx::new("C08", "release");
    if let Some(v) = ctx.replay_case() {
        let _guard_scope = guard::scoped(&v.to_string());
        if v["sys"] == "conv_clone" {
            ctx.finish_replay(clone_case(bits(&v["r"]), v["k"].as_u64().unwrap_or(0) as usize, v["via_clone_from"] == true, v["mul"] == true).map(|e| format!("{}: {}", e.0, e.1)));
        }
        if v["sys"] == "long" {
            ctx.finish_replay(long_run(bits(&v["r"]), v["outputs"].as_u64().unwrap_or(1000) as usize).map(|e| e.1));
        }
        let plan = plan_from(&v["plan"]).unwrap_or(Plan::Const(1.0, 0));
        let r = catch(|| dispatch(v["fmt"].as_str().unwrap_or(""), v["lin"].as_bool().unwrap_or(false), v["len"].as_u64().unwrap_or(0) as usize, v["alt"].as_bool().unwrap_or(false), &plan));
        ctx.finish_replay(match r {
            Ok(Ok(_)) => None,
            Ok(Err(e)) => Some(format!("{}: {}", e.0, e.1)),
            Err(p) => Some(format!("panic: {p}")),
        });
    }
    // the last six are scale probes: steps that cross many source frames at once
    let d_ratios = [0.25, 0.5, 0.75, 1.0, 1.25, 1.5, 2.0, 2.5, 3.0, 4.0, 7.0, 16.0, 31.5, 32.0, 33.0, 64.25, 1000.0];
    let nd_ratios = [1.0 / 3.0, 0.1, 0.7, 0.9, 1.1, 44100.0 / 48000.0, 48000.0 / 44100.0, 2.9999999999999996, 3.3, 0.01];
    let mut plans: Vec<Plan> = Vec::new();
    for &r in d_ratios.iter().chain(nd_ratios.iter()) {
        plans.push(Plan::Const(r, 0));
        plans.push(Plan::Const(r, 3));
    }
    for &r in &[0.25, 0.5, 1.0, 2.0, 4.0, 1.5, 0.75] {
        for c in [1u8, 2, 4] {
            plans.push(Plan::Const(r, c));
        }
    }
    let maxlen = ctx.tier.pick(5, 6);
    for alpha in [[0.5, 1.0, 1.5, 2.0], [0.7, 1.0, 1.1, 3.3]] {
        for l in 1..=maxlen {
            for code in 0..4usize.pow(l as u32) {
                plans.push(Plan::PerFrame((0..l).map(|j| alpha[(code / 4usize.pow(j as u32)) % 4]).collect()));
            }
        }
    }
    for &r1 in &[0.5, 1.0, 1.5, 2.0] {
        for &r2 in &[0.25, 0.5, 1.0, 1.5, 2.0, 4.0, 0.7] {
            for k in 0..6 {
                for s in 0..3u8 {
                    plans.push(Plan::Switch(r1, k, r2, s));
                }
            }
        }
    }
    ctx.set("ratio_plans", json!(plans.len()));
    ctx.rule(&format!("interpolator in {{Floor, Linear}} x frame type in {{f64, [f32;2], [i16;2]}} x source length 0..=8 (primed frames included; scale probes: 20 and 50 frames under every constant ratio, 65535 and 65537 frames under the ratios 1/2, 1, 2, 33, 1000) x content in {{ramp, alternating extremes}} x ratio plan: 27 constant ratios (incl. the scale probes 16, 31.5, 32, 33, 64.25, 1000) through every constructor (scale_playback_hz, from_hz_to_hz, scale_sample_hz, Signal::scale_hz, Signal::from_hz_to_hz), every per-frame ratio sequence over {{1/2,1,3/2,2}} and over {{0.7,1,1.1,3.3}} of length <= {maxlen} through mul_hz, every (r1, switch point k<6, r2, setter) plan; oracle: P_n as an exact rational (i128 x 2^-100), instrumented source: pulls == floor(P_n) (exactly for dyadic ratios, within n*2^-50 relative for others), floor output == source frame at the pulled index, linear output == straight-line blend at the exact fraction within 4 ulp / 1 LSB and inside the interval of the two frames, ratio 1 exact, is_exhausted() before each output == (source exhausted and that output pulled), output count for constant ratios in {{ceil((R+1)/r), +1}}; distinct by (configuration, output fingerprint)"));
    let mut cases = Vec::new();
    for fmt in ["f64", "[f32;2]", "[i16;2]"] {
        for lin in [false, true] {
            for len in 0..=8usize {
                for alt in [false, true] {
                    for (pi, _) in plans.iter().enumerate() {
                        cases.push((fmt, lin, len, alt, pi));
                    }
                }
            }
        }
    }
    // scale probes: longer sources under the constant-ratio plans
    for fmt in ["f64", "[i16;2]"] {
        for lin in [false, true] {
            for len in [20usize, 50] {
                for (pi, p) in plans.iter().enumerate() {
                    if matches!(p, Plan::Const(_, 0)) {
                        cases.push((fmt, lin, len, false, pi));
                    }
                }
            }
        }
    }
    // 16-bit boundary: sources of 2^16 +- 1 frames under a few constant ratios
    for fmt in ["f64", "[i16;2]"] {
        for lin in [false, true] {
            for len in [65535usize, 65537] {
                for (pi, p) in plans.iter().enumerate() {
                    if let Plan::Const(r, 0) = p {
                        if [0.5, 1.0, 2.0, 33.0, 1000.0].contains(r) {
                            cases.push((fmt, lin, len, false, pi));
                        }
                    }
                }
            }
        }
    }
    let evals = AtomicU64::new(0);
    guard::set_hang_secs(120);
    cases.par_iter().for_each(|&(fmt, lin, len, alt, pi)| {
        let plan = &plans[pi];
        let case = json!({"sys":"conv","fmt":fmt,"lin":lin,"len":len,"alt":alt,"plan":plan_json(plan)});
        let _guard_scope = guard::scoped(&case.to_string());
        evals.fetch_add(1, Relaxed);
        match catch(|| dispatch(fmt, lin, len, alt, plan)) {
            Ok(Ok(fp)) => ctx.observe(common::mix(common::fnv_str(&format!("{fmt}{lin}{len}{alt}{pi}")), fp)),
            Ok(Err((k, m))) => ctx.violation(&k, case, m, Some(&|| dispatch(fmt, lin, len, alt, plan).err().map(|e| e.1))),
            Err(p) => ctx.violation("conv.panic", case, format!("{fmt} len={len} plan {plan:?}: panicked: {p}"), None),
        }
        guard::leave();
    });
    // a non-positive scale is outside the property's quantifier (ratio > 0); whether it panics is
    // recorded, not judged
    ctx.set("nonpositive_scale_panics", json!(ctor_panics().is_none()));
    let outputs = ctx.tier.pick(100_000, 1_000_000);
    nd_ratios.par_iter().for_each(|&r| {
        let case = json!({"sys":"long","r":r.to_bits().to_string(),"outputs":outputs});
        let _guard_scope = guard::scoped(&case.to_string());
        if let Some((k, m)) = long_run(r, outputs) {
            ctx.violation(&k, case, m, None);
        }
        guard::leave();
    });
    // clone mid-history
    let mut clone_n = 0u64;
    for r in [0.25f64, 0.3, 0.5, 1.0, 1.5, 2.0, 2.75] {
        for k in 0..16usize {
            for via in [false, true] {
                for mul in [false, true] {
                    let case = json!({"sys":"conv_clone","r":r.to_bits().to_string(),"k":k,"via_clone_from":via,"mul":mul});
                    let _guard_scope = guard::scoped(&case.to_string());
                    clone_n += 1;
                    match catch(|| clone_case(r, k, via, mul)) {
                        Ok(None) => {}
                        Ok(Some((key, m))) => ctx.violation(&key, case, m, Some(&|| clone_case(r, k, via, mul).map(|e| e.1))),
                        Err(p) => ctx.violation("conv.panic", case, format!("clone case panicked: {p}"), None),
                    }
                }
            }
        }
    }
    ctx.add_evals(clone_n * 24);
    ctx.rule("clone mid-history: converter (constant ratio) and mul_hz (per-frame ratio) over a cloneable interpolator x 7 ratios x replaced after 0..16 outputs by its clone() or by clone_from() into a copy made at the start: 24 outputs, frames pulled and exhaustion flags equal those of the run without the replacement");
    ctx.add_evals(evals.load(Relaxed) + nd_ratios.len() as u64);
    ctx.set("long_runs", json!(format!("{} non-dyadic ratios x {outputs} outputs (single executions, labelled)", nd_ratios.len())));
    ctx.set("exhaustive", json!(true));
    ctx.set("exhaustive_scope", json!("the stated finite configuration space; real-valued ratios outside the alphabets and sources longer than 8 frames are not explored"));
    ctx.sample(json!({"sys":"conv","fmt":"[i16;2]","lin":true,"len":5,"alt":true,"plan":plan_json(&Plan::PerFrame(vec![1.5, 0.5, 2.0, 1.0]))}));
    ctx.sample(json!({"sys":"conv","fmt":"f64","lin":false,"len":3,"alt":false,"plan":plan_json(&Plan::Const(0.75, 0))}));
    ctx.assume("IEEE division/multiplication used to mirror from_hz_to_hz / scale_sample_hz ratio arithmetic in the reference");
    ctx.finish();
}
