//! C07 — no heap allocation in steady state. A counting global allocator is
//! sampled immediately before and after each real operation on an already
//! constructed object; the operations are the ones the other explorers drive
//! (adaptor programs of C04, ring-buffer states of C06, converter / detector /
//! window / graph configurations), at reduced bounds. The allocation-free
//! surface is the explicit catalogue below.

use checks::probe::{Gen, Probe};
use checks::progs::{self, Ext, Fr, Node as PNode, Watch};
use common::alloc::{self, bracket, Counting};
use common::{catch, guard, json, Ctx, Value};
use dasp_envelope::Detector;
use dasp_frame::Frame;
use dasp_graph::node::{Delay, GraphNode, Pass, Sum, SumBuffers};
use dasp_graph::{BoxedNode, Buffer, Input, Node, NodeData, Processor};
use dasp_interpolate::{floor::Floor, linear::Linear, sinc::Sinc, Interpolator};
use dasp_ring_buffer::{Bounded, Fixed};
use dasp_sample::Sample;
use dasp_signal::bus::SignalBus;
use dasp_signal::envelope::SignalEnvelope;
use dasp_signal::interpolate::Converter;
use dasp_signal::rms::SignalRms;
use dasp_signal::window::{Window, Windower};
use dasp_signal::{self as signal, Signal};
use dasp_window::{Hann, Rectangle};
use petgraph::graph::Graph;
use rayon::prelude::*;
use std::marker::PhantomData;
use std::sync::atomic::{AtomicU64, Ordering::Relaxed};
use std::sync::Mutex;

#[global_allocator]
static A: Counting = Counting;

type Bad = (String, String);

struct Audit<'a> {
    ctx: &'a Ctx,
    brackets: AtomicU64,
    catalogue: Mutex<Vec<(String, u64)>>,
}

impl<'a> Audit<'a> {
    fn group(&self, name: &str, n: u64) {
        self.brackets.fetch_add(n, Relaxed);
        let mut c = self.catalogue.lock().unwrap();
        if let Some(e) = c.iter_mut().find(|e| e.0 == name) {
            e.1 += n;
        } else {
            c.push((name.to_string(), n));
        }
    }
}

/// Run `f` inside a bracket; Err if it caused allocator events.
fn quiet<R>(what: &str, f: impl FnOnce() -> R) -> Result<R, Bad> {
    let (r, e) = bracket(f);
    if e != 0 {
        return Err(("alloc".into(), format!("{what}: {e} allocator event(s) (alloc/realloc/free) inside the operation")));
    }
    Ok(r)
}

// ------------------------------------------------------------ adaptor programs
fn program_case<F: Fr>(p: &PNode) -> Result<u64, Bad>
where
    F::Signed: Fr,
    F::Float: Fr,
{
    let h = progs::horizon::<F>(p) + 3;
    let mut w = Watch::default();
    let mut sig = progs::build_tree::<F>(p, &mut Ext(None), &mut w, 0, &mut 0, h);
    let mut n = 0;
    for k in 0..h {
        quiet(&format!("{} {} is_exhausted() before call {k}", F::NAME, p.show()), || sig.is_exhausted())?;
        quiet(&format!("{} {} next() #{k}", F::NAME, p.show()), || sig.next())?;
        n += 2;
    }
    // the iterator adaptors over the same program
    let mut w = Watch::default();
    let sig = progs::build_tree::<F>(p, &mut Ext(None), &mut w, 0, &mut 0, h);
    let mut it = sig.take(h);
    for k in 0..h + 1 {
        quiet(&format!("{} take over {} next() #{k}", F::NAME, p.show()), || it.next())?;
        n += 1;
    }
    let mut w = Watch::default();
    let sig = progs::build_tree::<F>(p, &mut Ext(None), &mut w, 0, &mut 0, h);
    let mut it = sig.until_exhausted();
    for k in 0..h {
        quiet(&format!("{} until_exhausted over {} next() #{k}", F::NAME, p.show()), || it.next())?;
        n += 1;
    }
    let mut w = Watch::default();
    let sig = progs::build_tree::<F>(p, &mut Ext(None), &mut w, 0, &mut 0, h);
    let mut il = sig.into_interleaved_samples();
    for k in 0..h * F::CHANNELS {
        if quiet(&format!("{} into_interleaved_samples over {} next_sample() #{k}", F::NAME, p.show()), || il.next_sample())?.is_none() {
            break;
        }
        n += 1;
    }
    Ok(n)
}

fn program_dispatch(fam: &str, p: &PNode) -> Result<u64, Bad> {
    match fam {
        "f32" => program_case::<f32>(p),
        "[i16;2]" => program_case::<[i16; 2]>(p),
        "[u8;3]" => program_case::<[u8; 3]>(p),
        _ => program_case::<[f64; 2]>(p),
    }
}

// ------------------------------------------------------------ ring buffers
fn ring_case(cap: usize, start: usize, len: usize, kind: u8) -> Result<u64, Bad> {
    let tag = format!("Bounded cap={cap} start={start} len={len} storage={}", ["array/&mut window", "Vec", "Box<[T]>"][kind as usize]);
    let mut n = 0u64;
    macro_rules! ops {
        ($b:expr) => {{
            let b = $b;
            for round in 0..3 * cap + 2 {
                quiet(&format!("{tag}: push #{round}"), || b.push(round as u32))?;
                quiet(&format!("{tag}: get/iter/slices"), || (b.get(0).copied(), b.iter().count(), b.slices().0.len(), b.len(), b.is_full()))?;
                quiet(&format!("{tag}: get_mut/iter_mut/slices_mut"), || {
                    if let Some(x) = b.get_mut(0) {
                        *x += 1;
                    }
                    b.iter_mut().for_each(|x| *x += 1);
                    b.slices_mut().0.len()
                })?;
                if round % 3 == 2 {
                    quiet(&format!("{tag}: pop"), || b.pop())?;
                    quiet(&format!("{tag}: drain().take(1)"), || b.drain().take(1).count())?;
                    quiet(&format!("{tag}: extend(2)"), || b.extend([7u32, 8]))?;
                }
                n += 6;
            }
        }};
    }
    match kind {
        0 => {
            let mut store = vec![0u32; cap];
            let mut b = Bounded::from_raw_parts(start, len, &mut store[..]);
            ops!(&mut b);
        }
        1 => {
            let mut b = Bounded::from_raw_parts(start, len, vec![0u32; cap]);
            ops!(&mut b);
        }
        _ => {
            let mut b = Bounded::from_raw_parts(start, len, vec![0u32; cap].into_boxed_slice());
            ops!(&mut b);
        }
    }
    // Fixed
    let mut f = Fixed::from_raw_parts(start, vec![0u32; cap]);
    for round in 0..2 * cap + 1 {
        quiet(&format!("Fixed N={cap}: push/get/set_first/iter"), || {
            let o = f.push(round as u32);
            *f.get_mut(round) += 1;
            f.set_first(round);
            (o, *f.get(round + 1), f.iter().count(), f.iter_loop().take(3).count(), f.slices().1.len(), f.iter_mut().count())
        })?;
        n += 1;
    }
    Ok(n)
}

// ------------------------------------------------- components (one case each)
fn component_cases() -> Vec<(&'static str, Box<dyn Fn() -> Result<u64, Bad> + Send + Sync>)> {
    let mut v: Vec<(&'static str, Box<dyn Fn() -> Result<u64, Bad> + Send + Sync>)> = Vec::new();
    macro_rules! case {
        ($name:expr, $body:expr) => {
            v.push(($name, Box::new($body)));
        };
    }
    case!("sample conversions and arithmetic (14 formats)", || {
        let mut n = 0;
        for i in -128i32..128 {
            quiet("sample ops", || {
                let a = i as i8;
                let u: u8 = a.to_sample();
                let w: u16 = u.to_sample();
                let x: dasp_sample::I24 = w.to_sample();
                let y: dasp_sample::U48 = x.to_sample();
                let f: f32 = y.to_sample();
                let g: f64 = f.to_sample();
                let z: i64 = g.to_sample();
                let q: u64 = z.to_sample();
                let r: dasp_sample::U24 = q.to_sample();
                let s: dasp_sample::I48 = r.to_sample();
                let t: i32 = s.to_sample();
                let v: u32 = t.to_sample();
                let k: i16 = v.to_sample();
                (Sample::add_amp(k, 1), Sample::mul_amp(u, 0.5), Sample::mul_amp(x, 0.25), Sample::add_amp(y, 0), Sample::mul_amp(f, g as f32), r.to_signed_sample(), q.to_float_sample())
            })?;
            n += 1;
        }
        Ok(n)
    });
    case!("frame methods (widths 1,2,3,8,32)", || {
        fn fr<const N: usize>() -> Result<u64, Bad> {
            let f: [i16; N] = core::array::from_fn(|c| c as i16 * 3 - 7);
            let g: [f32; N] = core::array::from_fn(|c| 0.5 - c as f32 * 0.01);
            quiet(&format!("frame ops N={N}"), || {
                let a = f.scale_amp(0.5).offset_amp(2).mul_amp(g).add_amp(f);
                let b: [f32; N] = a.to_float_frame();
                let c: [i16; N] = a.to_signed_frame();
                let d: [i16; N] = a.map(|s| Sample::mul_amp(s, 0.25));
                let e: [i16; N] = a.zip_map(c, |x, y| Sample::add_amp(x, y / 2));
                let mut it = f.iter().copied();
                let h: Option<[i16; N]> = Frame::from_samples(&mut it);
                let mut m = d;
                for s in m.channels_mut() {
                    *s += 1;
                }
                (b, e, h, a.channels().count(), a.channels_ref().rev().count(), m.channel(0).copied(), <[i16; N] as Frame>::EQUILIBRIUM)
            })?;
            Ok(1)
        }
        Ok(fr::<1>()? + fr::<2>()? + fr::<3>()? + fr::<8>()? + fr::<32>()?)
    });
    case!("borrowed slice views and in-place slice ops", || {
        let mut samples = vec![0.25f32; 96];
        let other = vec![[0.125f32; 2]; 48];
        quiet("slice views / in-place ops", || {
            let fr: &[[f32; 3]] = dasp_slice::to_frame_slice(&samples[..]).unwrap();
            let back: &[f32] = dasp_slice::to_sample_slice(fr);
            let n = back.len();
            let m: &mut [[f32; 2]] = dasp_slice::to_frame_slice_mut(&mut samples[..]).unwrap();
            dasp_slice::add_in_place(m, &other);
            dasp_slice::add_in_place_with_amp_per_channel(m, &other, [0.5, 0.25]);
            dasp_slice::map_in_place(m, |f| f.scale_amp(0.5));
            dasp_slice::write(m, &other);
            dasp_slice::equilibrium(m);
            let none: Option<&[[f32; 5]]> = dasp_slice::to_frame_slice(dasp_slice::to_sample_slice(&*m));
            (n, none.is_some())
        })?;
        Ok(8)
    });
    case!("boxed slice conversions (success path: reuse, no event)", || {
        let b: Box<[f32]> = vec![0.5f32; 12].into_boxed_slice();
        let fr = quiet("to_boxed_frame_slice", || dasp_slice::to_boxed_frame_slice::<_, [f32; 3]>(b))?.unwrap();
        let back = quiet("to_boxed_sample_slice", || dasp_slice::to_boxed_sample_slice(fr))?;
        drop(back);
        Ok(2)
    });
    case!("rectifiers, RMS detector, envelope detector", || {
        let mut rms = dasp_rms::Rms::<[f32; 2], [[f32; 2]; 8]>::new(Fixed::from([[0.0f32; 2]; 8]));
        let mut rms_v = dasp_rms::Rms::<[i16; 1], Vec<[f32; 1]>>::new(Fixed::from(vec![[0.0f32; 1]; 5]));
        let mut det: Detector<[i16; 2], _> = Detector::peak(2.5, 100.0);
        let mut det_r = Detector::rms(Fixed::from(vec![[0.0f32; 1]; 4]), 1.0, 0.0);
        let mut n = 0;
        for i in 0..200 {
            let x = (i as f32 * 0.37).sin();
            quiet("rectifiers / rms / detector step", || {
                let f = [x, -x];
                let a = dasp_peak::full_wave(f);
                let b = dasp_peak::positive_half_wave(f);
                let c = dasp_peak::negative_half_wave([(x * 1000.0) as i16]);
                let r = rms.next(f);
                let r2 = rms.next_squared(b);
                let r3 = rms.current();
                let r4 = rms_v.next(c);
                let d = det.next([(x * 30000.0) as i16, 5]);
                let d2 = det_r.next([(x * 20000.0) as i16]);
                if i == 100 {
                    rms.reset();
                    det.set_attack_frames(0.0);
                    det.set_release_frames(7.0);
                }
                (a, r, r2, r3, r4, d, d2)
            })?;
            n += 1;
        }
        Ok(n)
    });
    case!("interpolators and rate converter (floor, linear, sinc; setters; mul_hz)", || {
        let mut n = 0;
        let mut fl = Floor::new([0.0f64; 2]);
        let mut li = Linear::new([0i16; 2], [100; 2]);
        let mut si = Sinc::new(Fixed::from(vec![[0.0f32; 2]; 16]));
        for i in 0..64 {
            quiet("interpolator step", || {
                fl.next_source_frame([i as f64; 2]);
                li.next_source_frame([i as i16 * 10; 2]);
                si.next_source_frame([i as f32 * 0.01; 2]);
                let r = (fl.interpolate(0.3), li.interpolate(0.7), si.interpolate(0.25));
                if i == 40 {
                    fl.reset();
                    li.reset();
                    si.reset();
                }
                r
            })?;
            n += 1;
        }
        let (src, _) = Gen::new(|n| [(n % 97) as f32 / 97.0; 2]);
        let mut cv = Converter::from_hz_to_hz(src, Sinc::new(Fixed::from([[0.0f32; 2]; 32])), 44_100.0, 48_000.0);
        let (src2, _) = Gen::new(|n| (n % 13) as f64 / 13.0);
        let (ctl, _) = Gen::new(|n| 0.5 + (n % 4) as f64 * 0.5);
        let mut mh = src2.mul_hz(Linear::new(0.0, 0.0), ctl);
        let (src3, _) = Probe::new(vec![[1i16, 2]; 20]);
        let mut cf = src3.scale_hz(Floor::new([0i16; 2]), 0.3);
        for i in 0..3000 {
            quiet("converter next()/is_exhausted()/set_*", || {
                let a = cv.next();
                let e = cv.is_exhausted();
                if i % 500 == 0 {
                    cv.set_playback_hz_scale(0.5 + (i / 500) as f64 * 0.25);
                    cv.set_hz_to_hz(44_100.0, 22_050.0);
                    cv.set_sample_hz_scale(1.25);
                }
                (a, e, mh.next(), mh.is_exhausted(), cf.next(), cf.is_exhausted())
            })?;
            n += 1;
        }
        // ratio sweep: from heavy up-sampling to one output stepping over tens of thousands of source
        // frames, each ratio given through every constructor and every setter, three interpolators
        const RATIOS: [f64; 20] = [0.001, 0.01, 0.1, 0.5, 1.0, 2.0, 3.0, 7.9, 8.0, 8.5, 9.0, 12.0, 16.5, 33.0, 64.0, 100.0, 257.0, 1000.0, 4097.0, 65537.0];
        for (ri, &r) in RATIOS.iter().enumerate() {
            let (s1, _) = Gen::new(|n| (n % 31) as f64 / 31.0);
            let (s2, _) = Gen::new(|n| [(n % 29) as i16 * 100; 2]);
            let (s3, _) = Gen::new(|n| [(n % 97) as f32 / 97.0; 2]);
            let (s4, _) = Gen::new(|n| (n % 13) as f64 / 13.0);
            let (ctl, _) = Gen::new(move |n| if n % 3 == 0 { r } else { 0.75 });
            let mut c1 = Converter::scale_playback_hz(s1, Floor::new(0.0f64), r);
            let mut c2 = Converter::from_hz_to_hz(s2, Linear::new([0i16; 2], [0; 2]), r * 8_000.0, 8_000.0);
            let mut c3 = Converter::scale_sample_hz(s3, Sinc::new(Fixed::from([[0.0f32; 2]; 8])), 1.0 / r);
            let mut m4 = s4.mul_hz(Linear::new(0.0, 0.0), ctl);
            let outs = if r > 1000.0 { 6 } else { 24 };
            for i in 0..outs {
                quiet("converter next() over the ratio sweep", || {
                    let o = (c1.next(), c2.next(), c3.next(), m4.next(), c1.is_exhausted());
                    if i == outs / 2 {
                        // switch to the neighbouring ratio through each setter
                        let r2 = RATIOS[(ri + 7) % RATIOS.len()];
                        c1.set_playback_hz_scale(r2);
                        c2.set_hz_to_hz(r2 * 16_000.0, 16_000.0);
                        c3.set_sample_hz_scale(1.0 / r2);
                    }
                    o
                })?;
                n += 1;
            }
        }
        Ok(n)
    });
    case!("window functions, Window, Windower, Windowed", || {
        let frames: Vec<[f32; 2]> = (0..64).map(|i| [i as f32 / 64.0, 0.5]).collect();
        let mut n = 0;
        let mut w = Window::<[f32; 2], Hann>::new(16);
        let mut wr = Window::<f64, Rectangle>::new(8);
        for _ in 0..40 {
            quiet("Window::next", || (w.next(), wr.next()))?;
            n += 1;
        }
        let mut wd = Windower::hann(&frames[..], 8, 4);
        loop {
            let c = quiet("Windower::size_hint/next", || (wd.size_hint(), wd.next()))?;
            n += 1;
            match c.1 {
                None => break,
                Some(mut chunk) => {
                    for _ in 0..8 {
                        quiet("Windowed::next", || chunk.next())?;
                        n += 1;
                    }
                }
            }
        }
        let mut wd = Windower::rectangle(&frames[..], 5, 7);
        while quiet("Windower(rectangle)::next", || wd.next().map(|mut c| c.next()))?.is_some() {
            n += 1;
        }
        quiet("window functions", || (<Hann as dasp_window::Window<f32>>::window(0.3), <Rectangle as dasp_window::Window<f64>>::window(0.3)))?;
        Ok(n + 1)
    });
    case!("oscillators and noise", || {
        let mut a = signal::rate(44_100.0).const_hz(440.0).sine();
        let mut b = signal::rate(44_100.0).const_hz(441.0).saw();
        let mut c = signal::rate(44_100.0).const_hz(1.0).square();
        let mut d = signal::noise(7);
        let mut e = signal::rate(44_100.0).const_hz(5.0).noise_simplex();
        let (hz, _) = Gen::new(|n| 100.0 + n as f64);
        let mut f = signal::rate(48_000.0).hz(hz).sine();
        let mut g = signal::rate(4.0).const_hz(1.0).phase();
        let mut n = 0;
        for _ in 0..5000 {
            quiet("oscillator / noise next()", || (a.next(), b.next(), c.next(), d.next(), e.next(), f.next(), g.next()))?;
            n += 1;
        }
        Ok(n)
    });
    case!("buffered, fork (by_ref; by_rc allocates only at creation), rms and envelope adaptors", || {
        let mut n = 0;
        let (src, _) = Gen::new(|n| n as f32);
        let mut buf = src.buffered(Bounded::from([0.0f32; 7]));
        for i in 0..200 {
            quiet("Buffered::next / next_frames / is_exhausted", || {
                let a = buf.next();
                let k = if i % 5 == 0 { buf.next_frames().take(3).count() } else { 0 };
                (a, k, buf.is_exhausted())
            })?;
            n += 1;
        }
        let (src, _) = Gen::new(|n| n as f64);
        let mut fork = src.fork(Bounded::from(vec![0.0f64; 4]));
        for round in 0..50 {
            quiet("Fork::by_ref + branch next()/pending_frames()", || {
                let (mut a, mut b) = fork.by_ref();
                let x = (a.next(), a.next(), b.next(), a.pending_frames(), b.pending_frames(), b.next(), b.next(), round);
                x
            })?;
            n += 1;
        }
        let (mut a, mut b) = fork.by_rc(); // may allocate: the documented exception
        for _ in 0..200 {
            quiet("BranchRc next()", || (a.next(), b.next(), a.next(), b.next(), a.pending_frames()))?;
            n += 1;
        }
        let (src, _) = Gen::new(|n| [(n % 50) as i16 * 100; 2]);
        let mut r = src.rms(Fixed::from(vec![[0.0f32; 2]; 6]));
        let (src, _) = Gen::new(|n| (n % 31) as f32 / 31.0);
        let mut e = src.detect_envelope(Detector::peak(3.0, 30.0));
        for _ in 0..500 {
            quiet("rms / detect_envelope adaptors next()", || (r.next(), r.next_squared(), e.next()))?;
            n += 1;
        }
        Ok(n)
    });
    case!("signal adaptors over wide frames ([i16;32], [f32;16], [u8;9]) chained: scale/offset/add/mul/clip/delay/inspect/map/zip_map/per-channel", || {
        fn chain<F>(mk: fn(usize) -> F, sg: fn(usize) -> F::Signed, fl: fn(usize) -> F::Float, g: <F::Sample as Sample>::Float, o: <F::Sample as Sample>::Signed, t: <F::Sample as Sample>::Signed) -> Result<u64, Bad>
        where
            F: Frame + 'static,
        {
            let (a, _) = Gen::new(mk);
            let (b, _) = Gen::new(sg);
            let (c, _) = Gen::new(fl);
            let (d, _) = Gen::new(mk);
            let mut seen = 0usize;
            let mut sig = a
                .scale_amp(g)
                .offset_amp(o)
                .add_amp(b)
                .mul_amp(c)
                .clip_amp(t)
                .delay(3)
                .zip_map(d, |x: F, y: F| x.zip_map(y, |p, q| if p > q { p } else { q }))
                .map(|f: F| f.scale_amp(g))
                .scale_amp_per_channel(F::Float::from_fn(|_| g))
                .offset_amp_per_channel(F::Signed::from_fn(|_| o))
                .inspect(move |_| seen += 1);
            let mut n = 0;
            for k in 0..300 {
                quiet(&format!("wide adaptor chain next() #{k}"), || (sig.next(), sig.is_exhausted()))?;
                n += 1;
            }
            Ok(n)
        }
        let mut n = chain::<[i16; 32]>(|i| [(i % 50) as i16 * 20; 32], |i| [(i % 7) as i16; 32], |i| [0.25 + (i % 3) as f32 * 0.25; 32], 0.5, 3, 400)?;
        n += chain::<[f32; 16]>(|i| [(i % 50) as f32 * 0.01; 16], |i| [(i % 7) as f32 * 0.01; 16], |i| [0.25 + (i % 3) as f32 * 0.25; 16], 0.5, 0.125, 0.3)?;
        n += chain::<[u8; 9]>(|i| [128 + (i % 20) as u8; 9], |i| [(i % 5) as i8; 9], |_| [0.5; 9], 0.5, 2, 10)?;
        Ok(n)
    });
    case!("bus: backlog stops growing when outputs are pulled in step", || {
        let mut n = 0;
        for k in 1..=3usize {
            for rot in 0..k {
                let (src, _) = Gen::new(|n| n as f64);
                let bus = src.bus();
                let mut outs: Vec<_> = (0..k).map(|_| bus.send()).collect();
                let mut maxb = 0;
                for round in 0..64 + 4096 {
                    for j in 0..k {
                        let _ = outs[(j + rot) % k].next();
                    }
                    if round >= 64 {
                        maxb = maxb.max(bus.verif_backlog_len());
                    }
                    n += 1;
                }
                if maxb > 1 || bus.verif_backlog_len() != 0 {
                    return Err(("alloc.bus".into(), format!("bus with {k} outputs pulled in lock step (rotation {rot}): backlog reached {maxb} frames after warm-up and holds {} at a round boundary", bus.verif_backlog_len())));
                }
            }
        }
        Ok(n)
    });
    v
}

// --------------------------------------------------------------------- graphs
struct Osc(usize);
impl Node for Osc {
    fn process(&mut self, _i: &[Input], o: &mut [Buffer]) {
        for b in o.iter_mut() {
            for s in b.iter_mut() {
                *s = self.0 as f32;
                self.0 += 1;
            }
        }
    }
}

type GG = Graph<NodeData<BoxedNode>, ()>;

fn stock(i: usize) -> BoxedNode {
    match i % 7 {
        0 => BoxedNode::new(Sum),
        1 => BoxedNode::new(SumBuffers),
        2 => BoxedNode::new(Pass),
        3 => BoxedNode::new(Delay(vec![Fixed::from(vec![0.0f32; 5]), Fixed::from(vec![0.0f32; 70])])),
        4 => {
            let s: Box<dyn Signal<Frame = [f32; 2]>> = Box::new(signal::rate(100.0).const_hz(1.0).sine().map(|x| [x as f32, 0.5]));
            BoxedNode::new(s)
        }
        5 => {
            let mut inner: GG = Graph::with_capacity(3, 2);
            let a = inner.add_node(NodeData::new2(BoxedNode::new(Pass)));
            let b = inner.add_node(NodeData::new2(BoxedNode::new(Sum)));
            inner.add_edge(a, b, ());
            let mut p = Processor::with_capacity(3);
            p.process(&mut inner, b); // the inner processor has processed its graph once
            BoxedNode::new(GraphNode { processor: p, graph: inner, input_nodes: vec![a], output_node: b, node_type: PhantomData::<BoxedNode> })
        }
        _ => BoxedNode::new(Osc(0)),
    }
}

fn build_graph(n: usize, code: u32, shift: usize) -> (GG, Vec<petgraph::graph::NodeIndex>) {
    let mut g: GG = Graph::with_capacity(n, n * n);
    let ix: Vec<_> = (0..n).map(|i| g.add_node(NodeData::new2(stock(i + shift)))).collect();
    for a in 0..n {
        for b in 0..n {
            if (code >> (a * n + b)) & 1 == 1 {
                g.add_edge(ix[a], ix[b], ());
            }
        }
    }
    (g, ix)
}

/// one graph shape: after one process call, later calls (and a first call on a different graph of
/// the same size with the same processor) must not touch the allocator
fn graph_case(n: usize, code: u32) -> Result<u64, Bad> {
    // node kinds rotate with the shape so that every stock node appears in every position and size
    let (mut g, ix) = build_graph(n, code, code as usize % 7);
    let (mut g2, ix2) = build_graph(n, code.rotate_left(3) & ((1u32 << (n * n)) - 1), (code as usize / 7 + 2) % 7);
    let mut p = Processor::<GG>::with_capacity(n);
    let mut brackets = 0;
    let mut regrow: Option<Bad> = None;
    for out in 0..n {
        p.process(&mut g, ix[out]); // first call: may size the traversal state
        for call in 1..3 {
            quiet(&format!("graph n={n} edges={code:#x} output {out}: process call #{call} on an already processed graph"), || p.process(&mut g, ix[out]))?;
            brackets += 1;
        }
        // first call on a different graph with the same node count
        let s0 = alloc::snapshot();
        p.process(&mut g2, ix2[out]);
        let s1 = alloc::snapshot();
        if s1.events() != s0.events() {
            // structured key: growth of retained traversal state (reallocs only) is the recorded finding;
            // anything that allocates or frees is a different violation
            let only_regrow = s1.allocs == s0.allocs && s1.frees == s0.frees;
            let key = if only_regrow { "graph.regrow-on-different-graph" } else { "alloc" };
            let e: Bad = (key.into(), format!("graph n={n} edges={code:#x} output {out}: first process call on a different graph with the same node count (edges {:#x}) after the processor had processed the first one: {} alloc, {} realloc, {} free event(s)", code.rotate_left(3) & ((1u32 << (n * n)) - 1), s1.allocs - s0.allocs, s1.reallocs - s0.reallocs, s1.frees - s0.frees));
            if !only_regrow {
                return Err(e);
            }
            regrow = Some(e); // recorded finding: keep auditing the remaining calls of this shape
        }
        quiet(&format!("graph n={n} edges={code:#x} output {out}: second process call on the other graph"), || p.process(&mut g2, ix2[out]))?;
        brackets += 2;
    }
    match regrow {
        Some(e) => Err(e),
        None => Ok(brackets),
    }
}

/// scale probes for graphs: a mixer with many inputs, and a long chain (deep traversal)
fn wide_graph_case(fan_in: usize, chain: usize) -> Result<u64, Bad> {
    let n = fan_in + chain + 1;
    let mut g: GG = Graph::with_capacity(n, n);
    let mix = g.add_node(NodeData::new2(BoxedNode::new(if fan_in % 2 == 0 { stock(0) } else { stock(1) })));
    for i in 0..fan_in {
        let s = g.add_node(NodeData::new2(stock(6 + 7 * i)));
        g.add_edge(s, mix, ());
    }
    let mut last = mix;
    for i in 0..chain {
        let nx = g.add_node(NodeData::new2(stock(2 + (i % 2))));
        g.add_edge(last, nx, ());
        last = nx;
    }
    let mut p = Processor::<GG>::with_capacity(n);
    p.process(&mut g, last);
    let mut brackets = 0;
    for call in 1..6 {
        quiet(&format!("graph with a {fan_in}-input mixer and a chain of {chain}: process call #{call}"), || p.process(&mut g, last))?;
        brackets += 1;
    }
    Ok(brackets)
}

fn replay(v: &Value) -> Option<String> {
    let r = match v["sys"].as_str().unwrap_or("") {
        "program" => program_dispatch(v["family"].as_str().unwrap_or(""), &PNode::parse(v["program"].as_str().unwrap_or(""))?).err(),
        "ring" => ring_case(v["cap"].as_u64()? as usize, v["start"].as_u64()? as usize, v["len"].as_u64()? as usize, v["kind"].as_u64()? as u8).err(),
        "graph" => graph_case(v["n"].as_u64()? as usize, v["code"].as_u64()? as u32).err(),
        "wide_graph" => wide_graph_case(v["fan_in"].as_u64()? as usize, v["chain"].as_u64()? as usize).err(),
        "component" => component_cases().into_iter().find(|c| Some(c.0) == v["name"].as_str()).and_then(|c| (c.1)().err()),
        _ => Some(("c07".into(), "unknown case".into())),
    };
    r.map(|e| format!("{}: {}", e.0, e.1))
}

fn main() {
    let ctx = Ctx::new("C07", "release");
    if let Err(e) = alloc::self_test() {
        ctx.machinery_failure(&format!("counting allocator self-test: {e}"));
    }
    if let Some(v) = ctx.replay_case() {
        let _guard_scope = guard::scoped(&v.to_string());
        ctx.finish_replay(catch(|| replay(&v)).unwrap_or_else(|p| Some(format!("panic: {p}"))));
    }
    guard::set_hang_secs(300);
    // warm up rayon / thread-locals before any bracket
    (0..64).into_par_iter().for_each(|_| {
        let _ = alloc::snapshot();
    });
    let au = Audit { ctx: &ctx, brackets: AtomicU64::new(0), catalogue: Mutex::new(Vec::new()) };
    let report = |case: Value, r: Result<Result<u64, Bad>, String>, group: &str, rerun: &(dyn Fn() -> Option<String>)| match r {
        Ok(Ok(n)) => {
            au.group(group, n);
            au.ctx.observe(common::fnv_str(&case.to_string()));
        }
        Ok(Err((k, m))) => au.ctx.violation(&k, case, m, Some(rerun)),
        Err(p) => au.ctx.violation("alloc.panic", case, format!("panic: {p}"), None),
    };

    // 1. adaptor programs (C04's space at quick bounds; thorough: the full leaf alphabet)
    let quick = !ctx.thorough();
    for (fam, ch) in [("f32", 1usize), ("[i16;2]", 2), ("[u8;3]", 3), ("[f64;2]", 2)] {
        let ls = progs::leaves(quick, ch);
        let mut ps = progs::depth1(&ls);
        ps.extend(progs::stacks(2, &ls));
        ps.extend(progs::depth2(&ls));
        ps.par_iter().for_each(|p| {
            let case = json!({"sys":"program","family":fam,"program":p.show()});
            let _guard_scope = guard::scoped(&case.to_string());
            report(case, catch(|| program_dispatch(fam, p)), "signal sources and adaptors: every depth<=2 adaptor tree (map, zip_map, add_amp, mul_amp, scale_amp, offset_amp, per-channel variants, clip_amp, inspect, delay, from_iter, from_interleaved_samples_iter, equilibrium, gen, gen_mut) + take/until_exhausted/into_interleaved_samples", &|| program_dispatch(fam, p).err().map(|e| e.1));
            guard::leave();
        });
    }
    // 2. ring buffers: every raw state of capacities 1..=4, three storages
    let mut rings = Vec::new();
    for cap in 1..=4usize {
        for start in 0..cap {
            for len in 0..=cap {
                for kind in 0..3u8 {
                    rings.push((cap, start, len, kind));
                }
            }
        }
    }
    rings.par_iter().for_each(|&(cap, start, len, kind)| {
        let case = json!({"sys":"ring","cap":cap,"start":start,"len":len,"kind":kind});
        let _guard_scope = guard::scoped(&case.to_string());
        report(case, catch(|| ring_case(cap, start, len, kind)), "ring buffers: Bounded (array/&mut, Vec, Box storage; never resized) and Fixed, every operation from every raw state of capacities 1..=4", &|| ring_case(cap, start, len, kind).err().map(|e| e.1));
        guard::leave();
    });
    // 3. components
    let comps = component_cases();
    comps.par_iter().for_each(|(name, f)| {
        let case = json!({"sys":"component","name":name});
        let _guard_scope = guard::scoped(&case.to_string());
        report(case, catch(|| f()), name, &|| f().err().map(|e| e.1));
        guard::leave();
    });
    // 4. graphs: every digraph (with loops) on 1..=3 nodes, every 2^16 digraph on 4 nodes in thorough (quick: every 7th)
    let mut graphs: Vec<(usize, u32)> = Vec::new();
    for n in 1..=3usize {
        for code in 0..(1u32 << (n * n)) {
            graphs.push((n, code));
        }
    }
    for code in (0..(1u32 << 16)).step_by(if quick { 7 } else { 1 }) {
        graphs.push((4, code));
    }
    graphs.par_iter().for_each(|&(n, code)| {
        let case = json!({"sys":"graph","n":n,"code":code});
        let _guard_scope = guard::scoped(&case.to_string());
        report(case, catch(|| graph_case(n, code)), "graph processing with stock nodes (Sum, SumBuffers, Pass, Delay, boxed signal node, nested GraphNode, BoxedNode): 2nd/3rd call and first call on another graph of the same size", &|| graph_case(n, code).err().map(|e| e.1));
        guard::leave();
    });
    // graph scale probes
    for (fan_in, chain) in [(8usize, 0usize), (16, 1), (17, 0), (32, 2), (33, 0), (64, 3), (65, 0), (100, 0), (1, 64), (2, 200)] {
        let case = json!({"sys":"wide_graph","fan_in":fan_in,"chain":chain});
        let _guard_scope = guard::scoped(&case.to_string());
        report(case, catch(|| wide_graph_case(fan_in, chain)), "graph scale probes: a mixer with 8..100 inputs / chains of up to 200 nodes, repeated process calls", &|| wide_graph_case(fan_in, chain).err().map(|e| e.1));
    }
    ctx.add_evals(au.brackets.load(Relaxed));
    let cat = au.catalogue.lock().unwrap();
    ctx.set("catalogue", json!(cat.iter().map(|(n, c)| json!({"operations": n, "brackets": c})).collect::<Vec<_>>()));
    ctx.set("graph_shapes", json!(graphs.len()));
    ctx.set("exhaustive", json!(false));
    ctx.set("exhaustive_scope", json!("the explored transitions of the listed drivers at reduced bounds; allocation behaviour of ring-buffer-backed components is a function of their (finite, fully explored) state, oscillators and bus are run through many periods — an argument, not an enumeration, for arbitrarily long runs"));
    ctx.rule("a counting #[global_allocator] (thread-local counters, self-tested at start-up) is sampled immediately before and after each real operation on an already constructed object; invariant: alloc + realloc + free events inside the bracket == 0; evaluations = brackets; catalogue = the explicit list of operation groups covered (see `catalogue`); exceptions as the property words them: Fork::by_rc may allocate at creation only, boxed slice conversions reuse the allocation, the bus is only required to stop growing its backlog (<= 1 frame when k = 1..3 outputs are pulled in lock step in every rotation, 4096 rounds after a 64-round warm-up); graphs: after one process call, the 2nd and 3rd calls and the first call on a different graph of the same size cause zero events; distinct by case");
    ctx.sample(json!({"sys":"program","family":"[u8;3]","program":"zip(delay1(probe3),clip(iter2))"}));
    ctx.sample(json!({"sys":"graph","n":4,"code":4660}));
    ctx.assume("the harness's own forwarding wrapper and instrumented sources do not allocate inside a bracket (the inspect log is pre-reserved); the self-test shows the allocator counts Vec::with_capacity, drop and growth");
    ctx.finish();
}
