//! C13 — Bus: every history of send / next(i) / drop(i) to a bounded depth,
//! replayed on a fresh bus (unmerged), plus a merged stateright run on lag
//! vectors. Uses the hook `Bus::verif_backlog_len` (cfg rustaudio_dasp_verif).

use checks::probe::Probe;
use common::{catch, guard, json, Ctx, Value};
use dasp_signal::bus::{Output, SignalBus};
use dasp_signal::Signal;
use rayon::prelude::*;
use stateright::{Checker, Model, Property};
use std::hash::{Hash, Hasher};
use std::sync::atomic::{AtomicU64, Ordering::Relaxed};

#[derive(Clone, Copy, Debug, PartialEq, Eq, Hash)]
enum Act {
    Send,
    Next(u16), // index among all outputs ever attached (attach order)
    Drop(u16),
    DropBus, // the Bus handle itself; live outputs keep the shared node alive
}
impl Act {
    fn name(self) -> String {
        match self {
            Act::Send => "send".into(),
            Act::Next(i) => format!("next:{i}"),
            Act::Drop(i) => format!("drop:{i}"),
            Act::DropBus => "drop_bus".into(),
        }
    }
    fn parse(s: &str) -> Option<Act> {
        Some(match s.split_once(':') {
            None if s == "send" => Act::Send,
            None if s == "drop_bus" => Act::DropBus,
            Some(("next", i)) => Act::Next(i.parse().ok()?),
            Some(("drop", i)) => Act::Drop(i.parse().ok()?),
            _ => return None,
        })
    }
}

/// reference model
#[derive(Clone, Debug, Default)]
struct Ref {
    pulled: usize,
    outs: Vec<Option<(usize, usize)>>, // per attached output: Some((attach index, received)) while live
    bus_gone: bool, // the Bus handle itself was dropped (the outputs live on)
}
impl Ref {
    fn live(&self) -> usize {
        self.outs.iter().filter(|o| o.is_some()).count()
    }
    fn lags(&self) -> Vec<usize> {
        self.outs.iter().flatten().map(|(a, r)| self.pulled - (a + r)).collect()
    }
    fn enabled(&self, max_live: usize, max_sends: usize) -> Vec<Act> {
        let mut v = Vec::new();
        if !self.bus_gone && self.live() < max_live && self.outs.len() < max_sends {
            v.push(Act::Send);
        }
        if !self.bus_gone && self.live() >= 1 {
            v.push(Act::DropBus);
        }
        for (i, o) in self.outs.iter().enumerate() {
            if o.is_some() {
                v.push(Act::Next(i as u16));
            }
        }
        for (i, o) in self.outs.iter().enumerate() {
            if o.is_some() {
                v.push(Act::Drop(i as u16));
            }
        }
        v
    }
}

type Bad = (String, String);

/// Replay a history on a fresh bus over a probe of `src_len` frames whose
/// n-th frame is n+1 (equilibrium 0 is therefore distinguishable). Checks
/// every step from `check_from` on. Returns the reference state.
fn run_history(acts: &[Act], src_len: usize, check_from: usize) -> Result<(Ref, Vec<usize>, usize), Bad> {
    // a panic anywhere in the bus under test (an overflow check, a debug assertion) is a violation
    match catch(|| run_history_inner(acts, src_len, check_from)) {
        Ok(r) => r,
        Err(p) => Err(("bus.panic".into(), format!("history of {} actions ending in {:?} (source of {src_len} frames): panicked: {p}", acts.len(), acts[acts.len().saturating_sub(8)..].iter().map(|a| a.name()).collect::<Vec<_>>()))),
    }
}

fn run_history_inner(acts: &[Act], src_len: usize, check_from: usize) -> Result<(Ref, Vec<usize>, usize), Bad> {
    let (probe, c) = Probe::new((0..src_len).map(|n| (n + 1) as f64).collect());
    let mut bus = Some(probe.bus());
    // if the bus panics, the remaining outputs must not be dropped while unwinding (their Drop runs
    // the same bus code and a second panic would abort the process): leak them instead
    struct LeakOnPanic<T>(Vec<Option<T>>);
    impl<T> Drop for LeakOnPanic<T> {
        fn drop(&mut self) {
            if std::thread::panicking() {
                for o in self.0.drain(..) {
                    std::mem::forget(o);
                }
            }
        }
    }
    let mut outs_guard: LeakOnPanic<Output<Probe<f64>>> = LeakOnPanic(Vec::new());
    let outs = &mut outs_guard.0;
    let mut r = Ref::default();
    for (step, &a) in acts.iter().enumerate() {
        let tag = || {
            if acts.len() <= 40 {
                format!("history {:?} (source of {src_len} frames), step {step} = {}", acts.iter().map(|a| a.name()).collect::<Vec<_>>(), a.name())
            } else {
                format!("history of {} actions (source of {src_len} frames), steps {}..={step} = {:?}", acts.len(), step.saturating_sub(5), acts[step.saturating_sub(5)..=step].iter().map(|a| a.name()).collect::<Vec<_>>())
            }
        };
        let mut frame = None;
        match a {
            Act::Send => {
                outs.push(Some(bus.as_ref().ok_or_else(|| ("bus.harness".to_string(), "send after the bus handle was dropped".to_string()))?.send()));
                r.outs.push(Some((r.pulled, 0)));
            }
            Act::Next(i) => {
                let o = outs.get_mut(i as usize).and_then(|o| o.as_mut()).ok_or_else(|| ("bus.harness".to_string(), "next on a dead output".to_string()))?;
                frame = Some(o.next());
                let (at, rc) = r.outs[i as usize].unwrap();
                let idx = at + rc;
                r.outs[i as usize] = Some((at, rc + 1));
                r.pulled = r.pulled.max(idx + 1);
                if step >= check_from {
                    let exp = if idx < src_len { (idx + 1) as f64 } else { 0.0 };
                    if frame != Some(exp) {
                        return Err(("bus.stream".into(), format!("{}: output {i} (attached at source index {at}, {rc} received) got frame {:?}, expected source frame #{idx} = {exp}", tag(), frame)));
                    }
                }
            }
            Act::Drop(i) => {
                outs[i as usize] = None;
                r.outs[i as usize] = None;
            }
            Act::DropBus => {
                bus = None;
                r.bus_gone = true;
            }
        }
        if step >= check_from {
            if c.pulls() != r.pulled {
                return Err(("bus.pulls".into(), format!("{}: source pulled {} times, expected {} (once per distinct frame)", tag(), c.pulls(), r.pulled)));
            }
            let mut slowest = r.pulled;
            for (i, o) in outs.iter().enumerate() {
                if let (Some(o), Some((at, rc))) = (o, r.outs[i]) {
                    let lag = r.pulled - (at + rc);
                    slowest = slowest.min(at + rc);
                    let p = o.pending_frames();
                    if p != lag {
                        return Err(("bus.pending".into(), format!("{}: output {i} reports {p} pending frames, it lags {lag} behind the {} pulled", tag(), r.pulled)));
                    }
                    let e = o.is_exhausted();
                    if e != (lag == 0 && r.pulled >= src_len) {
                        return Err(("bus.exhausted".into(), format!("{}: output {i} is_exhausted() = {e} with lag {lag}, pulled {} of {src_len}", tag(), r.pulled)));
                    }
                }
            }
            let want = if r.live() == 0 { 0 } else { r.pulled - slowest };
            let b = bus.as_ref().map(|b| b.verif_backlog_len()).unwrap_or(want);
            if b != want {
                return Err(("bus.backlog".into(), format!("{}: backlog holds {b} frames, the slowest live output still needs {want}", tag())));
            }
        }
        let _ = frame;
    }
    let pend: Vec<usize> = outs.iter().flatten().map(|o| o.pending_frames()).collect();
    let b = bus.as_ref().map(|b| b.verif_backlog_len()).unwrap_or(usize::MAX);
    // drop the remaining outputs one at a time: a panic in one Drop must not meet a second one
    // while unwinding (that would abort the process instead of reporting the case)
    while let Some(o) = outs.pop() {
        if let Err(p) = catch(move || drop(o)) {
            for rest in outs.drain(..) {
                std::mem::forget(rest);
            }
            return Err(("bus.panic".into(), format!("history of {} actions, then dropping the remaining outputs: panicked: {p}", acts.len())));
        }
    }
    Ok((r, pend, b))
}

/// soak probe: a long deterministic history with up to `max_live` live outputs; the next action is
/// chosen by a fixed rule from the step number and the reference state (never random)
fn soak_history(steps: usize, max_live: usize) -> Vec<Act> {
    let mut r = Ref::default();
    let mut acts = Vec::with_capacity(steps);
    for t in 0..steps {
        let live: Vec<usize> = r.outs.iter().enumerate().filter(|(_, o)| o.is_some()).map(|(i, _)| i).collect();
        let a = if live.is_empty() || (t % 13 == 0 && live.len() < max_live && r.outs.len() < 250) {
            Act::Send
        } else if t % 29 == 28 && live.len() > 1 {
            Act::Drop(live[(t / 29) % live.len()] as u16)
        } else {
            // pull bursts: the same output for a few steps, bounded lag
            let i = live[(t / 5) % live.len()];
            let (at, rc) = r.outs[i].unwrap();
            let lagmax = live.iter().map(|&j| r.pulled - (r.outs[j].unwrap().0 + r.outs[j].unwrap().1)).max().unwrap_or(0);
            if at + rc == r.pulled && lagmax >= 9 {
                // let the slowest catch up instead of growing the backlog further
                let slow = *live.iter().max_by_key(|&&j| r.pulled - (r.outs[j].unwrap().0 + r.outs[j].unwrap().1)).unwrap();
                Act::Next(slow as u16)
            } else {
                Act::Next(i as u16)
            }
        };
        match a {
            Act::Send => r.outs.push(Some((r.pulled, 0))),
            Act::Next(i) => {
                let (at, rc) = r.outs[i as usize].unwrap();
                r.outs[i as usize] = Some((at, rc + 1));
                r.pulled = r.pulled.max(at + rc + 1);
            }
            Act::Drop(i) => r.outs[i as usize] = None,
            Act::DropBus => r.bus_gone = true,
        }
        acts.push(a);
    }
    acts
}

fn many_outputs_acts(m: usize) -> Vec<Act> {
    let mut acts = vec![Act::Send; m];
    for i in 0..m {
        for _ in 0..i % 40 {
            acts.push(Act::Next(i as u16));
        }
    }
    for _ in 0..m / 2 {
        acts.push(Act::Send);
    }
    for i in (0..m).step_by(3) {
        acts.push(Act::Drop(i as u16));
    }
    // everyone alive catches up with the front (39 frames in), late joiners pull two frames
    for i in 0..m {
        if i % 3 != 0 {
            for _ in 0..39 - i % 40 {
                acts.push(Act::Next(i as u16));
            }
        }
    }
    for j in m..m + m / 2 {
        acts.push(Act::Next(j as u16));
        acts.push(Act::Next(j as u16));
    }
    for i in (1..m).step_by(3) {
        acts.push(Act::Drop(i as u16));
        acts.push(Act::Next(((i + 1) % m) as u16));
    }
    {
        // drop the (rare) actions on outputs that were already dropped by an earlier rule
        let mut live = vec![false; m + m / 2];
        let mut n = 0usize;
        acts.into_iter()
            .filter(|a| match *a {
                Act::Send => {
                    live[n] = true;
                    n += 1;
                    true
                }
                Act::Next(i) => live[i as usize],
                Act::Drop(i) => std::mem::replace(&mut live[i as usize], false),
                Act::DropBus => true,
            })
            .collect()
    }
}

fn deep_lag_acts(k: usize, laggards: usize) -> Vec<Act> {
    let mut acts = vec![Act::Send; laggards + 1];
    for round in 0..3 {
        for _ in 0..k {
            acts.push(Act::Next(0));
        }
        for l in 1..=laggards {
            // the second laggard stops one frame short in odd rounds
            let n = if l == 2 && round % 2 == 1 { k - 1 } else { k };
            for _ in 0..n {
                acts.push(Act::Next(l as u16));
            }
        }
    }
    acts
}

fn case_json(acts: &[Act], src_len: usize) -> Value {
    json!({"sys":"bus","src_len":src_len,"actions":acts.iter().map(|a| a.name()).collect::<Vec<_>>()})
}

/// unmerged DFS: every history up to `depth`, the last step of each checked
/// (earlier steps were checked when the prefix was visited)
fn dfs(ctx: &Ctx, prefix: &mut Vec<Act>, r: &Ref, depth: usize, src_len: usize, counts: &mut (u64, u64), fps: &mut Vec<u64>) {
    if depth == 0 {
        return;
    }
    for a in r.enabled(3, 4) {
        prefix.push(a);
        counts.0 += 1;
        counts.1 += prefix.len() as u64;
        match run_history(prefix, src_len, prefix.len() - 1) {
            Ok((r2, _, _)) => {
                if fps.len() < 4096 && r2.outs.len() >= 2 {
                    fps.push(common::fnv_str(&format!("{src_len}{:?}", prefix)));
                }
                dfs(ctx, prefix, &r2, depth - 1, src_len, counts, fps)
            }
            Err((k, m)) => {
                let p2 = prefix.clone();
                ctx.violation(&k, case_json(prefix, src_len), m, Some(&move || run_history(&p2, src_len, 0).err().map(|e| e.1)));
            }
        }
        prefix.pop();
    }
}

// ------------------------------------------------------------------ merged
#[derive(Clone, Debug)]
struct St {
    key: (Vec<usize>, Vec<usize>, usize), // (reference lags of live outputs in attach order, observed pending, observed backlog)
    witness: Vec<Act>,
    bad: bool,
}
impl PartialEq for St {
    fn eq(&self, o: &St) -> bool {
        self.key == o.key && self.bad == o.bad
    }
}
impl Eq for St {}
impl Hash for St {
    fn hash<H: Hasher>(&self, h: &mut H) {
        self.key.hash(h);
        self.bad.hash(h);
    }
}
struct BusModel {
    ctx: &'static Ctx,
}
static TRANS: AtomicU64 = AtomicU64::new(0);
const MAX_LAG: usize = 4;

/// the witness uses attach indices; after many sends these grow, so the
/// model re-derives the reference by replaying
impl Model for BusModel {
    type State = St;
    type Action = Act;
    fn init_states(&self) -> Vec<St> {
        vec![St { key: (vec![], vec![], 0), witness: vec![], bad: false }]
    }
    fn actions(&self, s: &St, out: &mut Vec<Act>) {
        if s.bad || s.witness.len() >= 40 {
            return;
        }
        // reference state from the witness (cheap)
        let mut r = Ref::default();
        for a in &s.witness {
            match *a {
                Act::Send => r.outs.push(Some((r.pulled, 0))),
                Act::Next(i) => {
                    let (at, rc) = r.outs[i as usize].unwrap();
                    r.outs[i as usize] = Some((at, rc + 1));
                    r.pulled = r.pulled.max(at + rc + 1);
                }
                Act::Drop(i) => r.outs[i as usize] = None,
                Act::DropBus => r.bus_gone = true,
            }
        }
        for a in r.enabled(3, usize::MAX) {
            if let Act::Next(i) = a {
                let (at, rc) = r.outs[i as usize].unwrap();
                if at + rc == r.pulled && r.lags().iter().any(|l| l + 1 > MAX_LAG) {
                    continue; // the leader may only pull while every lag stays <= MAX_LAG
                }
            }
            out.push(a);
        }
    }
    fn next_state(&self, s: &St, a: Act) -> Option<St> {
        let mut acts = s.witness.clone();
        acts.push(a);
        let case = case_json(&acts, 1000);
        let _guard_scope = guard::scoped(&case.to_string());
        TRANS.fetch_add(1, Relaxed);
        match run_history(&acts, 1000, acts.len() - 1) {
            Ok((r, pend, b)) => Some(St { key: (r.lags(), pend, b), witness: acts, bad: false }),
            Err((k, m)) => {
                let a2 = acts.clone();
                self.ctx.violation(&k, case, m, Some(&move || run_history(&a2, 1000, 0).err().map(|e| e.1)));
                Some(St { key: s.key.clone(), witness: acts, bad: true })
            }
        }
    }
    fn properties(&self) -> Vec<Property<Self>> {
        vec![Property::always("every output sees a gap-free stream; backlog == slowest lag", |_, s: &St| !s.bad)]
    }
}

fn main() {
    let _final_guard = common::FinalGuard::new();
    let ctx: &'static Ctx = Ctx::leak("C13", "release");
    if let Some(v) = ctx.replay_case() {
        let _guard_scope = guard::scoped(&v.to_string());
        if v["sys"] == "bus_soak" {
            let acts = soak_history(v["steps"].as_u64().unwrap_or(1000) as usize, v["max_live"].as_u64().unwrap_or(3) as usize);
            ctx.finish_replay(catch(|| run_history(&acts, acts.len() + 10, 0)).unwrap_or_else(|p| Err(("panic".into(), p))).err().map(|e| e.1.chars().rev().take(400).collect::<String>().chars().rev().collect()));
        }
        let tail = |r: Result<Result<(Ref, Vec<usize>, usize), Bad>, String>| r.unwrap_or_else(|p| Err(("panic".into(), p))).err().map(|e| e.1.chars().rev().take(300).collect::<String>().chars().rev().collect::<String>());
        if v["sys"] == "bus_deep_lag" {
            let acts = deep_lag_acts(v["k"].as_u64().unwrap_or(5) as usize, v["laggards"].as_u64().unwrap_or(1) as usize);
            ctx.finish_replay(tail(catch(|| run_history(&acts, acts.len() + 10, 0))));
        }
        if v["sys"] == "bus_many_outputs" {
            let acts = many_outputs_acts(v["m"].as_u64().unwrap_or(8) as usize);
            let a = tail(catch(|| run_history(&acts, 30, 0)));
            let b = tail(catch(|| run_history(&acts, 100, 0)));
            ctx.finish_replay(a.or(b));
        }
        let acts: Vec<Act> = v["actions"].as_array().map(|a| a.iter().filter_map(|x| Act::parse(x.as_str()?)).collect()).unwrap_or_default();
        let r = catch(|| run_history(&acts, v["src_len"].as_u64().unwrap_or(1000) as usize, 0));
        ctx.finish_replay(match r {
            Ok(Ok(_)) => None,
            Ok(Err(e)) => Some(format!("{}: {}", e.0, e.1)),
            Err(p) => Some(format!("panic: {p}")),
        });
    }
    let depth: usize = ctx.tier.pick(12, 15);
    ctx.rule(&format!("unmerged: every history of send / next(i) / drop(i) / drop of the Bus handle itself (the outputs live on) to depth {depth} (quick 12 / thorough 15; finite source: two less) with <=3 simultaneously live outputs and <=4 sends, replayed on a fresh bus over an instrumented source (infinite, and finite of 3 frames); after every step: frame to output i == source frame #(attach index + received), attach index == pulled count at send, pending_frames == lag, source pulls == pulled (once per distinct frame), hook backlog length == pulled - slowest live position (0 with no live output), is_exhausted == (lag 0 and source exhausted); non-trivial = at least two outputs attached, distinct by history"));
    ctx.rule("merged: stateright BFS to fixpoint on (lag vector of live outputs, observed pending counts, observed backlog), unbounded sends, the leader may pull only while every lag stays <= 4; each transition executed on a real bus rebuilt by replaying the BFS witness history");
    guard::set_hang_secs(600);
    // unmerged: prefixes of length SPLIT are enumerated (and checked) sequentially, the rest in parallel
    const SPLIT: usize = 6;
    let mut roots: Vec<(Vec<Act>, usize)> = Vec::new();
    let mut pre_counts = (0u64, 0u64);
    fn collect(ctx: &Ctx, prefix: &mut Vec<Act>, r: &Ref, left: usize, src_len: usize, roots: &mut Vec<(Vec<Act>, usize)>, counts: &mut (u64, u64)) {
        if left == 0 {
            roots.push((prefix.clone(), src_len));
            return;
        }
        for a in r.enabled(3, 4) {
            prefix.push(a);
            match run_history(prefix, src_len, prefix.len() - 1) {
                Ok((r2, _, _)) => {
                    if left > 1 {
                        counts.0 += 1;
                        counts.1 += prefix.len() as u64;
                    }
                    collect(ctx, prefix, &r2, left - 1, src_len, roots, counts)
                }
                Err((k, m)) => ctx.violation(&k, case_json(prefix, src_len), m, None),
            }
            prefix.pop();
        }
    }
    for src_len in [1000usize, 3] {
        collect(ctx, &mut Vec::new(), &Ref::default(), SPLIT, src_len, &mut roots, &mut pre_counts);
    }
    let tot: Vec<(u64, u64)> = roots
        .par_iter()
        .map(|(pre, src_len)| {
            let mut counts = (0u64, 0u64);
            let mut fps = Vec::new();
            let _guard_scope = guard::scoped(&case_json(pre, *src_len).to_string());
            match run_history(pre, *src_len, 0) {
                Ok((r, _, _)) => {
                    counts.0 += 1;
                    let mut p = pre.clone();
                    // finite source: depth - 1 keeps the thorough tier affordable
                    let d = if *src_len == 3 { depth.saturating_sub(SPLIT + 2) } else { depth - SPLIT };
                    dfs(ctx, &mut p, &r, d, *src_len, &mut counts, &mut fps);
                }
                Err((k, m)) => ctx.violation(&k, case_json(pre, *src_len), m, None),
            }
            ctx.observe_many(fps);
            guard::leave();
            counts
        })
        .collect();
    let hist: u64 = tot.iter().map(|t| t.0).sum::<u64>() + pre_counts.0;
    let steps: u64 = tot.iter().map(|t| t.1).sum::<u64>() + pre_counts.1;
    ctx.set("unmerged_histories", json!(hist));
    ctx.set("unmerged_steps_executed", json!(steps));
    ctx.set("unmerged_depth", json!(depth));

    // soak probes
    let soak_steps = ctx.tier.pick(20_000, 200_000);
    for max_live in [1usize, 2, 3, 6] {
        let _guard_scope = guard::scoped(&json!({"sys":"bus_soak","max_live":max_live,"steps":soak_steps}).to_string());
        let acts = soak_history(soak_steps, max_live);
        ctx.add_evals(soak_steps as u64);
        if let Err((k, m)) = run_history(&acts, acts.len() + 10, 0) {
            let short: String = m.chars().rev().take(400).collect::<String>().chars().rev().collect();
            ctx.violation(&k, json!({"sys":"bus_soak","max_live":max_live,"steps":soak_steps}), format!("soak history of {soak_steps} steps with up to {max_live} live outputs: ...{short}"), None);
        }
    }
    // deep-lag probes: a leader runs K frames ahead of one or two laggards, who then catch up; repeated
    for k in [5usize, 31, 32, 33, 63, 64, 65, 127, 128, 129, 300, 1024, 4096, 44100, 48000, 65535, 65536, 65537] {
        for laggards in [1usize, 2] {
            let acts = deep_lag_acts(k, laggards);
            let case = json!({"sys":"bus_deep_lag","k":k,"laggards":laggards});
            let _guard_scope = guard::scoped(&case.to_string());
            ctx.add_evals(acts.len() as u64);
            if let Err((key, m)) = run_history(&acts, acts.len() + 10, 0) {
                let short: String = m.chars().rev().take(300).collect::<String>().chars().rev().collect();
                ctx.violation(&key, case, format!("a leader {k} frames ahead of {laggards} laggard(s): ...{short}"), None);
            }
        }
    }
    // many-output probes: a staircase of M simultaneously live outputs (output i is i frames in),
    // late joiners attached mid-stream, every third output dropped, everyone catches up
    for m in [8usize, 33, 100, 255, 256, 257, 300] {
        let acts = many_outputs_acts(m);
        let case = json!({"sys":"bus_many_outputs","m":m});
        let _guard_scope = guard::scoped(&case.to_string());
        ctx.add_evals(acts.len() as u64);
        if let Err((key, msg)) = run_history(&acts, 30, 0) {
            let short: String = msg.chars().rev().take(300).collect::<String>().chars().rev().collect();
            ctx.violation(&key, case.clone(), format!("{m} simultaneously live outputs in a staircase (finite source of 30 frames): ...{short}"), None);
        }
        if let Err((key, msg)) = run_history(&acts, 100, 0) {
            let short: String = msg.chars().rev().take(300).collect::<String>().chars().rev().collect();
            ctx.violation(&key, case, format!("{m} simultaneously live outputs in a staircase: ...{short}"), None);
        }
    }
    ctx.rule("many-output probes: M in {8, 33, 100, 255, 256, 257, 300} outputs attached at once, output i pulls i mod 40 frames, M/2 late joiners attached mid-stream, every third output dropped, the rest catch up, further drops interleaved with pulls; over a finite source of 30 frames (exhausted mid-way) and one of 100; same checks after every step");
    ctx.rule("deep-lag probes: a leader runs K frames ahead (K in 5,31,32,33,63,64,65,127,128,129,300 and the 16-bit boundary 65535,65536,65537) of one or two laggards who then catch up, three rounds, same checks after every step");
    ctx.rule(&format!("soak probes: one deterministic history of {soak_steps} steps (sends, pull bursts, drops chosen by a fixed rule from the step number and the reference state) with up to 1, 2, 3 and 6 live outputs on a single bus, same checks after every step (single executions, labelled)"));
    let c = BusModel { ctx }.checker().threads(1).spawn_bfs().join();
    ctx.set("merged_unique_states", json!(c.unique_state_count()));
    ctx.set("merged_max_depth", json!(c.max_depth()));
    ctx.add_states(c.unique_state_count() as u64 + hist);
    ctx.add_transitions(TRANS.load(Relaxed) + steps);
    ctx.add_evals(hist + TRANS.load(Relaxed));
    ctx.set("exhaustive", json!(true));
    ctx.set("exhaustive_scope", json!(format!("every history to depth {depth} with <=3 live outputs / <=4 sends (unmerged); merged: fixpoint of lag vectors with lags <=4 and <=3 live outputs")));
    ctx.sample(case_json(&[Act::Send, Act::Next(0), Act::Send, Act::Next(0), Act::Next(1), Act::Drop(0), Act::Next(1), Act::Send], 1000));
    ctx.sample(case_json(&[Act::Send, Act::Send, Act::Next(1), Act::Next(1), Act::Drop(1), Act::Next(0)], 3));
    ctx.assume("merged run only: the bus never looks at frame values or absolute counts (offsets are relative); the unmerged run assumes nothing");
    ctx.assume("backlog length is read through the additive hook Bus::verif_backlog_len (cfg rustaudio_dasp_verif)");
    ctx.finish();
}
