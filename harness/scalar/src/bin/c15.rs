//! C15 — custom-width integer sample types (I11 U11 I20 U20 I24 U24 I48 U48).
//! Exhaustive over all operand pairs for the 11-bit types, over a documented
//! boundary lattice (squared) for the wider ones; run in two build profiles
//! (`release`: no debug assertions; `dbg`: debug assertions + overflow checks)
//! against i128 modular arithmetic.

use common::refmodel::wrap;
use common::{catch, guard, json, Ctx, Value};
use dasp_sample::types::{I11, I20, I24, I48, U11, U20, U24, U48};
use rayon::prelude::*;
use std::sync::atomic::{AtomicU64, Ordering::Relaxed};

const DEBUG: bool = cfg!(debug_assertions);
/// are overflow checks on in this build? (decided by probing an addition, the same way rustc decides)
#[allow(arithmetic_overflow)]
fn overflow_checks_on() -> bool {
    std::panic::catch_unwind(|| {
        let x: u8 = std::hint::black_box(255);
        std::hint::black_box(x + std::hint::black_box(1))
    })
    .is_err()
}
static OVF_CELL: std::sync::OnceLock<bool> = std::sync::OnceLock::new();
#[allow(non_snake_case)]
fn OVF_get() -> bool {
    *OVF_CELL.get_or_init(overflow_checks_on)
}

trait Custom: Copy + Ord + Send + Sync + 'static {
    const NAME: &'static str;
    const BITS: u32;
    const MINV: i128;
    const MAXV: i128;
    const REP_MIN: i128;
    const REP_MAX: i128;
    const HAS_NEG: bool;
    fn new_(v: i128) -> Option<Self>;
    fn from_rep(v: i128) -> Self;
    fn unchecked(v: i128) -> Self;
    fn val(self) -> i128;
    fn add_(self, o: Self) -> Self;
    fn sub_(self, o: Self) -> Self;
    fn mul_(self, o: Self) -> Self;
    fn neg_(self) -> Self;
}

macro_rules! custom {
    ($T:ident, $Rep:ty, $bits:expr, $min:expr, $max:expr, $neg:expr, $negbody:expr) => {
        impl Custom for $T {
            const NAME: &'static str = stringify!($T);
            const BITS: u32 = $bits;
            const MINV: i128 = $min;
            const MAXV: i128 = $max;
            const REP_MIN: i128 = <$Rep>::MIN as i128;
            const REP_MAX: i128 = <$Rep>::MAX as i128;
            const HAS_NEG: bool = $neg;
            fn new_(v: i128) -> Option<Self> {
                $T::new(v as $Rep)
            }
            fn from_rep(v: i128) -> Self {
                $T::from(v as $Rep)
            }
            fn unchecked(v: i128) -> Self {
                $T::new_unchecked(v as $Rep)
            }
            fn val(self) -> i128 {
                self.inner() as i128
            }
            fn add_(self, o: Self) -> Self {
                self + o
            }
            fn sub_(self, o: Self) -> Self {
                self - o
            }
            fn mul_(self, o: Self) -> Self {
                self * o
            }
            fn neg_(self) -> Self {
                let f: fn($T) -> $T = $negbody;
                f(self)
            }
        }
    };
}
custom!(I11, i16, 11, -1024, 1023, true, |x| -x);
custom!(U11, i16, 11, 0, 2047, false, |x| x);
custom!(I20, i32, 20, -524_288, 524_287, false, |x| x);
custom!(U20, i32, 20, 0, 1_048_575, false, |x| x);
custom!(I24, i32, 24, -8_388_608, 8_388_607, true, |x| -x);
custom!(U24, i32, 24, 0, 16_777_215, false, |x| x);
custom!(I48, i64, 48, -140_737_488_355_328, 140_737_488_355_327, true, |x| -x);
custom!(U48, i64, 48, 0, 281_474_976_710_655, false, |x| x);

fn in_range<T: Custom>(v: i128) -> bool {
    v >= T::MINV && v <= T::MAXV
}

/// Expected outcome of an arithmetic operation whose exact result is `exact`.
/// release: Some(wrapped); dbg: Some(exact) if in range else None (= panic).
fn expect<T: Custom>(exact: i128) -> Option<i128> {
    if DEBUG {
        if in_range::<T>(exact) {
            Some(exact)
        } else {
            None
        }
    } else {
        Some(wrap(T::MINV, T::BITS, exact))
    }
}

/// One arithmetic case on the real type. None = agrees.
fn arith_case<T: Custom>(op: &str, a: i128, b: i128) -> Option<String> {
    let (x, y) = (T::unchecked(a), T::unchecked(b));
    let (exact, got) = match op {
        "add" => (a + b, catch(|| x.add_(y).val())),
        "sub" => (a - b, catch(|| x.sub_(y).val())),
        "mul" => (a * b, catch(|| x.mul_(y).val())),
        "neg" => (-a, catch(|| x.neg_().val())),
        _ => return Some(format!("unknown op {op}")),
    };
    let exp = expect::<T>(exact);
    let got_v = got.as_ref().ok().copied();
    if let Some(g) = got_v {
        if !in_range::<T>(g) {
            return Some(format!(
                "{}: {op}({a}, {b}) returned {g}, outside [{}, {}] (profile {})",
                T::NAME,
                T::MINV,
                T::MAXV,
                if DEBUG { "debug-assertions" } else { "release" }
            ));
        }
    }
    if got_v != exp {
        return Some(format!(
            "{}: {op}({a}, {b}) gave {} but the exact result {exact} requires {} (profile {})",
            T::NAME,
            got_v.map(|g| g.to_string()).unwrap_or_else(|| format!("panic {:?}", got.err().unwrap_or_default())),
            exp.map(|e| format!("the value {e}")).unwrap_or_else(|| "a panic".into()),
            if DEBUG { "debug-assertions" } else { "release" }
        ));
    }
    None
}

fn ctor_case<T: Custom>(what: &str, v: i128) -> Option<String> {
    match what {
        "new" => {
            let got = catch(|| T::new_(v).map(|x| x.val()));
            let exp = if in_range::<T>(v) { Some(v) } else { None };
            if got != Ok(exp) {
                return Some(format!("{}::new({v}) gave {got:?}, expected {exp:?}", T::NAME));
            }
        }
        "from_rep" => {
            let got = catch(|| T::from_rep(v).val());
            let exp = wrap(T::MINV, T::BITS, v);
            if got != Ok(exp) {
                return Some(format!("{}::from({v}) gave {got:?}, expected {exp} (wrapped modulo 2^{})", T::NAME, T::BITS));
            }
        }
        _ => return Some(format!("unknown ctor {what}")),
    }
    None
}

fn ord_case<T: Custom>(a: i128, b: i128) -> Option<String> {
    let (x, y) = (T::unchecked(a), T::unchecked(b));
    if x.cmp(&y) != a.cmp(&b) || (x == y) != (a == b) || x.partial_cmp(&y) != Some(a.cmp(&b)) || (x < y) != (a < b) || (x >= y) != (a >= b) {
        return Some(format!("{}: ordering/equality of ({a}, {b}) disagrees with numeric order", T::NAME));
    }
    None
}

fn dispatch(ty: &str, kind: &str, a: i128, b: i128) -> Option<String> {
    macro_rules! go {
        ($T:ty) => {
            match kind {
                "new" | "from_rep" => ctor_case::<$T>(kind, a),
                "ord" => ord_case::<$T>(a, b),
                "widen" => None,
                op => arith_case::<$T>(op, a, b),
            }
        };
    }
    match ty {
        "I11" => go!(I11),
        "U11" => go!(U11),
        "I20" => go!(I20),
        "U20" => go!(U20),
        "I24" => go!(I24),
        "U24" => go!(U24),
        "I48" => go!(I48),
        "U48" => go!(U48),
        _ => Some(format!("unknown type {ty}")),
    }
}

fn case_json(ty: &str, kind: &str, a: i128, b: i128) -> Value {
    json!({"type": ty, "kind": kind, "a": a.to_string(), "b": b.to_string(), "profile": if DEBUG {"debug-assertions"} else {"no-debug-assertions"}, "overflow_checks": OVF_get()})
}

fn report(ctx: &Ctx, ty: &str, kind: &str, a: i128, b: i128, msg: String) {
    // input class for the structured key: which operand sits on MIN (the only
    // class the pre-study found), otherwise "general"
    let key = format!("{ty}.{kind}");
    let (ty, kind) = (ty.to_string(), kind.to_string());
    ctx.violation(&key, case_json(&ty, &kind, a, b), msg, Some(&move || dispatch(&ty, &kind, a, b)));
}

/// boundary lattice of a type (in-range values only)
fn lattice<T: Custom>(w: i128) -> Vec<i128> {
    let eq = if T::MINV == 0 { (T::MAXV + 1) / 2 } else { 0 };
    let mut v = Vec::new();
    for d in 0..=w {
        v.extend([T::MINV + d, T::MAXV - d, eq + d, eq - d]);
    }
    for k in 0..T::BITS {
        let p = 1i128 << k;
        for d in -1..=1 {
            v.extend([p + d, -p + d, T::MAXV - p + d, T::MINV + p + d]);
        }
    }
    let mut r = 1i128;
    while (r + 1) * (r + 1) <= T::MAXV {
        r += 1;
    }
    for d in -2..=2 {
        v.extend([r + d, -(r + d)]);
    }
    v.retain(|&x| in_range::<T>(x));
    v.sort();
    v.dedup();
    v
}

fn rep_lattice<T: Custom>(w: i128) -> Vec<i128> {
    let mut v = lattice::<T>(w);
    let total = 1i128 << T::BITS;
    for d in 0..=w {
        v.extend([T::REP_MIN + d, T::REP_MAX - d, T::MINV - 1 - d, T::MAXV + 1 + d]);
    }
    for m in [1, 2, 3, 7, 100, 1000] {
        for d in -2..=2 {
            v.extend([T::MAXV + m * total + d, T::MINV - m * total + d]);
        }
    }
    let mut k = 0;
    while (1i128 << k) <= T::REP_MAX {
        let p = 1i128 << k;
        v.extend([p, p - 1, p + 1, -p, -p - 1, -p + 1]);
        k += 1;
    }
    v.retain(|&x| x >= T::REP_MIN && x <= T::REP_MAX);
    v.sort();
    v.dedup();
    v
}

struct Counts {
    evals: AtomicU64,
    panics_expected: AtomicU64,
    wraps: AtomicU64,
}

fn sweep_type<T: Custom>(ctx: &Ctx, c: &Counts) {
    let ty = T::NAME;
    let all = T::BITS <= 11;
    let w = ctx.tier.pick(64, 700);
    // operands
    let ops: Vec<i128> = if all { (T::MINV..=T::MAXV).collect() } else { lattice::<T>(w) };
    // constructors
    let reps: Vec<i128> = if all { (T::REP_MIN..=T::REP_MAX).collect() } else { rep_lattice::<T>(ctx.tier.pick(4096, 1 << 16)) };
    let _guard_scope = guard::scoped(&case_json(ty, "new", 0, 0).to_string());
    for &v in &reps {
        for kind in ["new", "from_rep"] {
            c.evals.fetch_add(1, Relaxed);
            if let Some(m) = dispatch(ty, kind, v, 0) {
                report(ctx, ty, kind, v, 0, m);
            }
        }
        if !in_range::<T>(v) {
            ctx.observe(common::mix(common::fnv_str(ty), wrap(T::MINV, T::BITS, v) as u64));
        }
    }
    ctx.set(&format!("{ty}.ctor_values"), json!(reps.len()));
    ctx.set(&format!("{ty}.operands"), json!(ops.len()));
    ctx.set(&format!("{ty}.operands_complete"), json!(all));
    let kinds: Vec<&str> = if T::HAS_NEG { vec!["add", "sub", "mul", "ord", "neg"] } else { vec!["add", "sub", "mul", "ord"] };
    ops.par_iter().for_each(|&a| {
        let _guard_scope = guard::scoped(&case_json(ty, "row", a, 0).to_string());
        let mut local = 0u64;
        let mut fps = Vec::new();
        for kind in &kinds {
            if *kind == "neg" {
                local += 1;
                if let Some(m) = arith_case::<T>("neg", a, 0) {
                    report(ctx, ty, "neg", a, 0, m);
                }
                continue;
            }
            for &b in &ops {
                local += 1;
                let bad = match *kind {
                    "ord" => ord_case::<T>(a, b),
                    op => {
                        let exact = match op {
                            "add" => a + b,
                            "sub" => a - b,
                            _ => a * b,
                        };
                        if !in_range::<T>(exact) {
                            if DEBUG {
                                c.panics_expected.fetch_add(1, Relaxed);
                            } else {
                                c.wraps.fetch_add(1, Relaxed);
                            }
                            // a non-trivial case: the exact result leaves the range
                            if fps.len() < 64 {
                                fps.push(common::mix(common::mix(common::fnv_str(ty), common::fnv_str(op)), wrap(T::MINV, T::BITS, exact) as u64));
                            }
                        }
                        arith_case::<T>(op, a, b)
                    }
                };
                if let Some(m) = bad {
                    report(ctx, ty, kind, a, b, m);
                }
            }
            guard::tick();
        }
        c.evals.fetch_add(local, Relaxed);
        ctx.observe_many(fps);
    });
    guard::leave();
}

/// Widening From impls preserve the numeric value.
fn widen(ctx: &Ctx, c: &Counts) {
    macro_rules! w {
        // primitive source, complete domain
        ($T:ty, prim $U:ty) => {{
            let name = concat!(stringify!($T), "<-", stringify!($U));
            let _guard_scope = guard::scoped(&json!({"type": stringify!($T), "kind": "widen", "from": stringify!($U)}).to_string());
            let lo = <$U>::MIN as i128;
            let hi = <$U>::MAX as i128;
            let complete = hi - lo <= (1 << 16) || ctx.thorough();
            let vals: Vec<i128> = if complete {
                Vec::new() // complete domains are walked as a parallel range, never materialised
            } else {

                let mut v: Vec<i128> = Vec::new();
                for d in 0..(1i128 << 16) {
                    v.extend([lo + d, hi - d, d, -d]);
                }
                let mut k = 0;
                while (1i128 << k) <= hi {
                    v.extend([1i128 << k, (1i128 << k) - 1, -(1i128 << k)]);
                    k += 1;
                }
                v.retain(|x| *x >= lo && *x <= hi);
                v.sort();
                v.dedup();
                v
            };
            let bad: Option<i128> = if complete {
                ((lo as i64)..=(hi as i64)).into_par_iter().find_first(|&v| <$T>::from(v as $U).val() != v as i128).map(|v| v as i128)
            } else {
                vals.par_iter().find_first(|&&v| <$T>::from(v as $U).val() != v).copied()
            };
            c.evals.fetch_add(if complete { (hi - lo + 1) as u64 } else { vals.len() as u64 }, Relaxed);
            ctx.observe(common::fnv_str(name));
            if let Some(v) = bad {
                let got = <$T>::from(v as $U).val();
                ctx.violation(&format!("{}.widen", stringify!($T)), json!({"type": stringify!($T), "kind":"widen", "from": stringify!($U), "a": v.to_string()}),
                    format!("{}::from({}{}) = {got}, numeric value not preserved", stringify!($T), v, stringify!($U)), None);
            }
        }};
        // custom source, complete domain
        ($T:ty, cust $U:ty) => {{
            let name = concat!(stringify!($T), "<-", stringify!($U));
            let _guard_scope = guard::scoped(&json!({"type": stringify!($T), "kind": "widen", "from": stringify!($U)}).to_string());
            let vals: Vec<i128> = (<$U as Custom>::MINV..=<$U as Custom>::MAXV).collect();
            let bad = vals.par_iter().find_first(|&&v| <$T>::from(<$U as Custom>::unchecked(v)).val() != v);
            c.evals.fetch_add(vals.len() as u64, Relaxed);
            ctx.observe(common::fnv_str(name));
            if let Some(&v) = bad {
                let got = <$T>::from(<$U as Custom>::unchecked(v)).val();
                ctx.violation(&format!("{}.widen", stringify!($T)), json!({"type": stringify!($T), "kind":"widen", "from": stringify!($U), "a": v.to_string()}),
                    format!("{}::from({}({v})) = {got}, numeric value not preserved", stringify!($T), stringify!($U)), None);
            }
        }};
    }
    w!(I11, prim i8);
    w!(I11, prim u8);
    w!(I20, prim i8);
    w!(I20, cust I11);
    w!(I20, prim i16);
    w!(I20, prim u8);
    w!(I20, cust U11);
    w!(I20, prim u16);
    w!(I24, prim i8);
    w!(I24, prim i16);
    w!(I24, cust I20);
    w!(I24, prim u8);
    w!(I24, prim u16);
    w!(I24, cust U20);
    w!(I48, prim i8);
    w!(I48, prim i16);
    w!(I48, cust I20);
    w!(I48, cust I24);
    w!(I48, prim i32);
    w!(I48, prim u8);
    w!(I48, prim u16);
    w!(I48, cust U20);
    w!(I48, cust U24);
    w!(I48, prim u32);
    w!(U11, prim u8);
    w!(U20, prim u8);
    w!(U20, prim u16);
    w!(U24, prim u8);
    w!(U24, prim u16);
    w!(U24, cust U20);
    w!(U48, prim u8);
    w!(U48, prim u16);
    w!(U48, cust U20);
    w!(U48, cust U24);
    w!(U48, prim u32);
    ctx.set("widening_impls_checked", json!(35));
}

fn main() {
    let ctx = Ctx::new("C15", if DEBUG { "dbg" } else { "release" });
    if ctx.part.starts_with("dbg") != DEBUG {
        ctx.machinery_failure(&format!("part {} does not match the build profile (debug_assertions={DEBUG})", ctx.part));
    }
    if let Some(v) = ctx.replay_case() {
        let ty = v["type"].as_str().unwrap_or("");
        let kind = v["kind"].as_str().unwrap_or("");
        let a: i128 = v["a"].as_str().and_then(|s| s.parse().ok()).unwrap_or(0);
        let b: i128 = v["b"].as_str().and_then(|s| s.parse().ok()).unwrap_or(0);
        if let Some(p) = v["profile"].as_str() {
            if (p == "dbg" || p == "debug-assertions") != DEBUG {
                eprintln!("note: artefact was recorded in profile {p}");
            }
        }
        let _guard_scope = guard::scoped(&v.to_string());
        ctx.finish_replay(dispatch(ty, kind, a, b));
    }
    guard::set_hang_secs(120);
    ctx.rule(&format!(
        "profile {}: I11/U11 — every i16 for new/From<i16>, all 2048^2 operand pairs for + - * and ordering, every value for negation; I20 U20 I24 U24 I48 U48 — boundary lattice (MIN..MIN+w, EQ-w..EQ+w, MAX-w..MAX, +-2^k+-1, MAX-2^k, MIN+2^k, floor(sqrt(MAX))+-2; w=64 quick / 700 thorough) squared; From<Rep> over the lattice plus Rep::MIN/MAX neighbourhoods and multiples of 2^bits; 35 widening From impls complete over the source type (i32/u32: lattice in quick); oracle = i128 arithmetic: release => wrap(exact) in [MIN,MAX], debug assertions => exact if in range else panic; non-trivial = the exact result leaves [MIN,MAX] (distinct by type, op and wrapped result)",
        format!("{} / overflow-checks {}", if DEBUG { "debug-assertions" } else { "no debug-assertions" }, if OVF_get() { "on" } else { "off" })
    ));
    let c = Counts { evals: AtomicU64::new(0), panics_expected: AtomicU64::new(0), wraps: AtomicU64::new(0) };
    sweep_type::<I11>(&ctx, &c);
    sweep_type::<U11>(&ctx, &c);
    sweep_type::<I20>(&ctx, &c);
    sweep_type::<U20>(&ctx, &c);
    sweep_type::<I24>(&ctx, &c);
    sweep_type::<U24>(&ctx, &c);
    sweep_type::<I48>(&ctx, &c);
    sweep_type::<U48>(&ctx, &c);
    widen(&ctx, &c);
    ctx.add_evals(c.evals.load(Relaxed));
    ctx.set("overflowing_cases_expected_to_panic", json!(c.panics_expected.load(Relaxed)));
    ctx.set("overflowing_cases_expected_to_wrap", json!(c.wraps.load(Relaxed)));
    ctx.set("exhaustive", json!(false));
    ctx.set("exhaustive_scope", json!("complete for I11/U11 (all operand pairs, all i16) and for the widening impls; documented lattice for the 20/24/48-bit types"));
    ctx.sample(json!({"type":"I11","kind":"mul","a":"-1024","b":"-1024","expected": if DEBUG {"panic"} else {"0 (2^20 wrapped modulo 2^11)"}}));
    ctx.sample(json!({"type":"I24","kind":"neg","a":"-8388608","expected": if DEBUG {"panic"} else {"-8388608 (wrapped)"}}));
    ctx.sample(json!({"type":"U48","kind":"from_rep","a": i64::MIN.to_string(), "expected":"0"}));
    ctx.assume("U11 also implements Neg although unsigned; the property speaks of negation of signed types, so U11 negation is not checked. Div/Rem/shifts/bit operators are not part of the statement.");
    ctx.assume("expectations depend on debug assertions only, as the property states: all four combinations of (debug-assertions, overflow-checks) are separate driver steps (release, dbg, dbgwrap, relchk)");
    ctx.finish();
}
