//! Shared main of the C04 / C05 explorers.

use crate::progs::*;
use common::{catch, guard, json, Ctx};
use rayon::prelude::*;
use std::sync::atomic::{AtomicU64, Ordering::Relaxed};

fn run_one(prop: &str, fam: &str, p: &Node) -> Bad {
    macro_rules! go {
        ($F:ty) => {
            if prop == "C04" {
                run_c04::<$F>(p)
            } else {
                run_c05::<$F>(p)
            }
        };
    }
    match fam {
        "f32" => go!(f32),
        "[i16;2]" => go!([i16; 2]),
        "[u8;3]" => go!([u8; 3]),
        "[f64;2]" => go!([f64; 2]),
        "[i32;2]" => go!([i32; 2]),
        "[i64;1]" => go!([i64; 1]),
        "i32" => go!(i32),
        "[f64;3] tiny" => go!([f64; 3]),
        "[f32;1] loud" => go!([f32; 1]),
        _ => Some(("prog".into(), format!("unknown family {fam}"))),
    }
}

fn big_stack<T: Send + 'static>(f: impl FnOnce() -> T + Send + 'static) -> T {
    std::thread::Builder::new().stack_size(256 << 20).spawn(f).unwrap().join().unwrap()
}

pub fn main_for(prop: &'static str) {
    let ctx = Ctx::new(prop, "release");
    if let Some(v) = ctx.replay_case() {
        let _guard_scope = guard::scoped(&v.to_string());
        let fam = v["family"].as_str().unwrap_or("").to_string();
        if fam == "huge_delay" {
            let (k, l, sh) = (v["delay"].as_u64().unwrap_or(0) as usize, v["frames"].as_u64().unwrap_or(0) as usize, v["shape"].as_u64().unwrap_or(0) as usize);
            ctx.finish_replay(catch(|| huge_delay_case(k, l, sh)).unwrap_or_else(|e| Some(("adaptor.huge_delay".into(), e))).map(|x| format!("{}: {}", x.0, x.1)));
        }
        if fam == "wide" {
            let (ch, n, r) = (v["channels"].as_u64().unwrap_or(0) as usize, v["frames"].as_u64().unwrap_or(0) as usize, v["rem"].as_u64().unwrap_or(0) as usize);
            ctx.finish_replay(big_stack(move || catch(|| wide_dispatch(ch, n, r)).unwrap_or_else(|e| Some(("wide.panic".into(), e)))).map(|x| format!("{}: {}", x.0, x.1)));
        }
        let p = Node::parse(v["program"].as_str().unwrap_or("")).unwrap_or_else(|| {
            eprintln!("cannot parse program");
            std::process::exit(2)
        });
        ctx.finish_replay(catch(|| run_one(prop, &fam, &p)).unwrap_or_else(|e| Some(("panic".into(), e))).map(|x| format!("{}: {}", x.0, x.1)));
    }
    let quick = !ctx.thorough();
    let fams: [(&str, usize); 9] = [("f32", 1), ("[i16;2]", 2), ("[u8;3]", 3), ("[f64;2]", 2), ("[i32;2]", 2), ("[i64;1]", 1), ("i32", 1), ("[f64;3] tiny", 3), ("[f32;1] loud", 1)];
    let evals = AtomicU64::new(0);
    let nexts = AtomicU64::new(0);
    let mut total_programs = 0usize;
    guard::set_hang_secs(60);
    for (fam, ch) in fams {
        let ls = leaves(quick, ch);
        let mut progs: Vec<Node> = Vec::new();
        progs.extend(depth1(&ls));
        for d in 2..=(if quick { 3 } else { 4 }) {
            progs.extend(stacks(d, &ls));
        }
        progs.extend(depth2(&ls));
        progs.extend(interleaved_lengths(ch));
        // scale probes: longer sources under every depth-1 program
        progs.extend(depth1(&[Leaf::Probe(7), Leaf::Iter(9), Leaf::Inter((5 * ch + 2) as u32), Leaf::GenMut]));
        progs.extend(long_programs(ch));
        if !quick {
            // depth-3 trees over a small alphabet
            progs.extend(small_trees(3, &[Leaf::Probe(2), Leaf::Iter(1)], &[Un::Delay(1), Un::Clip]));
            progs.sort_by_key(|n| n.show());
            progs.dedup();
        }
        total_programs += progs.len();
        ctx.set(&format!("programs.{fam}"), json!(progs.len()));
        progs.par_iter().for_each(|p| {
            let case = json!({"family": fam, "program": p.show()});
            let _guard_scope = guard::scoped(&case.to_string());
            evals.fetch_add(1, Relaxed);
            nexts.fetch_add((p.longest_source(ch) + p.total_delay() + 3) as u64, Relaxed);
            match catch(|| run_one(prop, fam, p)) {
                Ok(None) => {
                    if p.size() > 1 {
                        ctx.observe(common::fnv_str(&format!("{fam}{}", p.show())));
                    }
                }
                Ok(Some((k, m))) => ctx.violation(&k, case, m, Some(&|| run_one(prop, fam, p).map(|x| x.1))),
                Err(e) => ctx.violation("prog.panic", case, format!("{fam} {}: panicked: {e}", p.show()), None),
            }
            guard::leave();
        });
    }
    {
        // scale probe: delays far beyond any runnable horizon
        let mut cases = 0u64;
        for k in HUGE_DELAYS {
            for l in [0usize, 3] {
                for sh in 0..5usize {
                    let case = json!({"family": "huge_delay", "delay": k as u64, "frames": l, "shape": sh});
                    let _guard_scope = guard::scoped(&case.to_string());
                    cases += 1;
                    match catch(|| huge_delay_case(k, l, sh)) {
                        Ok(None) => ctx.observe(common::fnv_str(&format!("hd{k}/{l}/{sh}"))),
                        Ok(Some((key, m))) => ctx.violation(&key, case, m, Some(&|| huge_delay_case(k, l, sh).map(|x| x.1))),
                        Err(e) => ctx.violation("adaptor.huge_delay", case, format!("delay({k}) over {l} frames, shape {sh}: panicked: {e}"), None),
                    }
                    guard::leave();
                }
            }
        }
        evals.fetch_add(cases, Relaxed);
        ctx.set("huge_delay_cases", json!(cases));
    }
    if prop == "C05" {
        // scale probe: the end-of-stream clauses for very wide frames ("every channel count")
        let mut widths: Vec<usize> = WIDE_QUICK.to_vec();
        if !quick {
            widths.extend(WIDE_THOROUGH);
        }
        let cases = std::thread::scope(|sc| {
            std::thread::Builder::new()
                .stack_size(256 << 20)
                .spawn_scoped(sc, || {
                    let mut cases = 0u64;
                    for &ch in &widths {
                        for n in 0..=3usize {
                            for r in [0usize, 1, ch - 1] {
                                let case = json!({"family": "wide", "channels": ch, "frames": n, "rem": r});
                                let _guard_scope = guard::scoped(&case.to_string());
                                cases += 1;
                                match catch(|| wide_dispatch(ch, n, r)) {
                                    Ok(None) => ctx.observe(common::fnv_str(&format!("wide{ch}/{n}/{r}"))),
                                    Ok(Some((k, m))) => ctx.violation(&k, case, m, Some(&|| wide_dispatch(ch, n, r).map(|x| x.1))),
                                    Err(e) => ctx.violation("wide.panic", case, format!("[i32;{ch}] frames={n} trailing_samples={r}: panicked: {e}"), None),
                                }
                                guard::leave();
                            }
                        }
                    }
                    cases
                })
                .unwrap()
                .join()
                .unwrap()
        });
        evals.fetch_add(cases, Relaxed);
        ctx.set("wide_frame_cases", json!(cases));
        ctx.set("wide_frame_channel_counts", json!(widths));
    }
    ctx.add_evals(evals.load(Relaxed));
    ctx.set("programs", json!(total_programs));
    ctx.set("horizon_calls_primary_run", json!(nexts.load(Relaxed)));
    ctx.set("exhaustive", json!(true));
    ctx.set("exhaustive_scope", json!(format!("every adaptor tree of depth <=2 and every unary stack of depth <={} over the leaf alphabet, 9 frame families; right operands of add_amp/mul_amp are unary stacks of depth <=1 in the companion family; deeper programs are not explored (thorough adds every depth-3 tree over 2 leaves x 2 unary adaptors, about 2.7 million per family)", if quick { 3 } else { 4 })));
    if prop == "C04" {
        ctx.rule("programs: leaves = instrumented probe (length 0..3), from_iter, from_interleaved_samples_iter, equilibrium, gen, gen_mut; unary = map, scale_amp(0.5), scale_amp(-1), scale_amp(0), scale_amp(1), offset_amp, scale_amp_per_channel, offset_amp_per_channel, clip_amp, inspect, delay(0|1|2); scale probes: sources of 7, 9, 70 and 300 frames under every depth-1 program and delays of 31, 255, 256, 257 and 1000 frames below and above every unary adaptor and beside every binary one, delays of 65535, 65536, 65537 frames run to the end in six program shapes, and delay(k) for k in {2^16, 2^16+1, 2^31+1, 2^32, 2^32+3, 2^48+2, 2^63, MAX-1, MAX} observed for its first 40 frames (silence, no pull, not exhausted); binary = add_amp, mul_amp (right operand in the Signed / Float companion family), zip_map; all trees of depth <=2, all unary stacks to depth 3 (quick) / 4 (thorough); families f32, [i16;2], [u8;3], [f64;2], [i32;2], [i64;1] and the bare sample i32 used as a mono frame (the last three with values and clip thresholds that do not fit the Float companion's mantissa), plus two magnitude families: [f64;3] with the lattice scaled by 2^-200 (far below any silence threshold) and [f32;1] scaled by 2^20 (far beyond full scale), every operation still exact; each program run for longest source + total delay + 3 calls: frame n == interpreter (for the integer families the amplitude operations are re-derived with independent arithmetic: add in the Signed companion, multiply in the Float companion with correctly rounded conversions; float families apply the native float addition / multiplication, also beyond full scale (a gain-4 letter in the scale probes); clip_amp also with threshold 0 (everything limited to equilibrium); map / zip_map apply the harness's own closures; clip = clamp of the signed amplitude, delay = k equilibrium frames), every probe pulled exactly once per call and not at all while a delay above it is emitting silence, inspect saw exactly the frames that passed, and for every j <= horizon the program built over a borrowed probe, run j steps and dropped leaves the probe at frame j - delays; non-trivial = a program with at least one adaptor, distinct by (family, program)");
    } else {
        ctx.rule("same program space as C04; per program: is_exhausted() before and after every next() == (calls >= T) with T from the exhaustion algebra (leaf: number of complete frames; unary: forwarded; delay(k): T+k; binary: min), 3 further calls return the interpreter's frames, until_exhausted() and lift() yield exactly T frames then None three times, into_interleaved_samples (iterator, next_sample, and k samples through next_sample followed by the iterator for every k up to 2 x channels + 1) yields exactly T x channels samples in channel order then None, take(n) for n in 0..=T+2 yields exactly n frames with exact len/size_hint; for the programs with at most one adaptor the whole Iterator protocol (nth, skip, step_by, count, last, size_hint after every cursor position) of until_exhausted, take and the interleaved-sample iterator agrees with next(); interleaved sources of every sample count 0..=3N+1; scale probes: delay(k) for k from 2^16 to usize::MAX stays live and silent without touching its source for the first 40 calls, over an empty and a 3-frame source; [i32; N] frames for the listed wide channel counts (byte and 16-bit boundaries included), 0..=3 frames plus 0 / 1 / N-1 trailing samples: from_interleaved_samples_iter, until_exhausted, into_interleaved_samples (both forms), take, add_amp of unequal lengths; non-trivial = a program with at least one adaptor, distinct by (family, program)");
    }
    ctx.sample(json!({"family":"[u8;3]","program":"add(delay1(probe3),scale_neg(iter2))"}));
    ctx.sample(json!({"family":"f32","program":"clip(zip(probe1,delay2(genmut)))"}));
    ctx.assume("trees are built through a forwarding wrapper (pure delegation of next / is_exhausted); every adaptor in the tree is the real dasp_signal struct");
    ctx.finish();
}
