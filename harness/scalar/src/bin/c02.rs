//! C02 — float <-> integer and float <-> float sample conversions against a
//! bit-level reference (integer round-to-nearest-even, exact truncation of
//! dyadic rationals).

use scalar::domain::{fills, Domain, Piece};
use scalar::fmts::IntS;
use scalar::for_int_fmts;
use common::refmodel::{f32_to_f64, f64_to_f32, f64_to_int, int_to_f32, int_to_f64, Fmt, INT_FMTS};
use common::{catch, guard, json, Ctx, Value};
use dasp_sample::{FromSample, Sample, ToSample, I24, I48, U24, U48};
use rayon::prelude::*;
use std::sync::atomic::{AtomicU64, Ordering::Relaxed};
use std::sync::Arc;

struct Tot {
    evals: AtomicU64,
    distinct: AtomicU64,
}

fn fmt_by_name(n: &str) -> Option<Fmt> {
    INT_FMTS.iter().copied().find(|f| f.name() == n)
}

// ---------------------------------------------------------------- int -> float
fn i2f_single<S: IntS + ToSample<f32> + ToSample<f64>>(v: i128) -> Option<String> {
    let s = S::from_i128(v);
    let g32: f32 = s.to_sample();
    let g64: f64 = s.to_sample();
    let e32 = int_to_f32(S::FMT, v);
    let e64 = int_to_f64(S::FMT, v);
    if g32.to_bits() != e32.to_bits() {
        return Some(format!("{} {v} -> f32 gave {g32:e} ({:#x}), correctly rounded amplitude/2^{} is {e32:e} ({:#x})", S::FMT.name(), g32.to_bits(), S::FMT.bits() - 1, e32.to_bits()));
    }
    if g64.to_bits() != e64.to_bits() {
        return Some(format!("{} {v} -> f64 gave {g64:e}, correctly rounded amplitude/2^{} is {e64:e}", S::FMT.name(), S::FMT.bits() - 1));
    }
    if !(g32 >= -1.0 && g32 <= 1.0 && g64 >= -1.0 && g64 <= 1.0) {
        return Some(format!("{} {v} -> float left [-1, 1]: {g32:e} / {g64:e}", S::FMT.name()));
    }
    None
}

fn i2f_sweep<S: IntS + ToSample<f32> + ToSample<f64>>(ctx: &Ctx, tot: &Tot, dom: &Domain) {
    let min = S::FMT.min();
    dom.pieces.par_iter().for_each(|piece| {
        let _guard_scope = guard::scoped(&json!({"sys":"i2f","src":S::FMT.name(),"piece":piece.describe()}).to_string());
        let mut n = 0u64;
        let mut ch = 0u64;
        let mut prev: Option<(f32, f64)> = None;
        let mut bad: Option<(i128, String)> = None;
        piece.for_each(|u| {
            let v = min + u as i128;
            n += 1;
            let s = S::from_i128(v);
            let g32: f32 = s.to_sample();
            let g64: f64 = s.to_sample();
            if g32.to_bits() != int_to_f32(S::FMT, v).to_bits() || g64.to_bits() != int_to_f64(S::FMT, v).to_bits() || !(g32.abs() <= 1.0) || !(g64.abs() <= 1.0) {
                if bad.is_none() {
                    bad = Some((v, i2f_single::<S>(v).unwrap_or_default()));
                }
                return;
            }
            if let Some((p32, p64)) = prev {
                if (g32 < p32 || g64 < p64) && bad.is_none() {
                    bad = Some((v, format!("{} -> float: order not preserved at {v}", S::FMT.name())));
                }
                if g64 != p64 {
                    ch += 1;
                }
            }
            prev = Some((g32, g64));
        });
        tot.evals.fetch_add(2 * n, Relaxed);
        tot.distinct.fetch_add(ch, Relaxed);
        if let Some((v, m)) = bad {
            ctx.violation(&format!("i2f.{}", S::FMT.name()), json!({"sys":"i2f","src":S::FMT.name(),"v":v.to_string()}), m, Some(&|| i2f_single::<S>(v)));
        }
        guard::leave();
    });
}


/// Rounding-decision lattice for wide integer sources: for every position p of the leading bit
/// and both float mantissa widths (24, 53), magnitudes built as
/// [mantissa pattern][round bit][middle bits down to the *other* format's cut][sticky bits],
/// so that ties, near-ties and double-rounding traps (value within one f64 ulp of an f32
/// midpoint) are all enumerated. Returned as mathematical values of the format.
fn rounding_points(f: Fmt) -> Vec<i128> {
    let bits = f.bits();
    let mut mags: Vec<u128> = Vec::new();
    let mant_pats = |w: u32| -> Vec<u128> {
        // leading one + a few structured low parts of the kept mantissa
        let top = 1u128 << (w - 1);
        let mut v = vec![top, top | 1, top | 2, top | 3, (1u128 << w) - 1, (1u128 << w) - 2, top | (top >> 1), top | 0x55, top | 0xAA];
        v.dedup();
        v
    };
    for p in 0..bits {
        for w in [24u32, 53] {
            if p + 1 <= w {
                continue; // fits the mantissa: no rounding
            }
            let below = p + 1 - w; // number of discarded bits
            for m in mant_pats(w) {
                let hi = m << below;
                let round = 1u128 << (below - 1);
                // sticky / middle patterns of the remaining below-1 bits
                let rest_bits = below - 1;
                let mut rests: Vec<u128> = vec![0];
                if rest_bits > 0 {
                    let ones = (1u128 << rest_bits) - 1;
                    rests.extend([1, ones, ones - 1, 1u128 << (rest_bits - 1)]);
                    // a lone sticky bit at every position (covers "just below the other format's cut")
                    for k in 0..rest_bits {
                        rests.push(1u128 << k);
                        rests.push(ones ^ (1u128 << k));
                    }
                }
                for rb in [0u128, round] {
                    for r in &rests {
                        mags.push(hi | rb | r);
                    }
                }
            }
        }
    }
    mags.sort();
    mags.dedup();
    let mut v = Vec::new();
    for m in mags {
        for a in [m as i128, -(m as i128)] {
            let val = common::refmodel::from_amp(f, a);
            if common::refmodel::in_range(f, val) {
                v.push(val);
            }
        }
    }
    v
}

fn i2f_points<S: IntS + ToSample<f32> + ToSample<f64>>(ctx: &Ctx, tot: &Tot, pts: &[i128]) {
    pts.par_chunks(1 << 14).for_each(|ch| {
        let _guard_scope = guard::scoped(&json!({"sys":"i2f","src":S::FMT.name(),"v":ch[0].to_string(),"note":"rounding lattice chunk"}).to_string());
        for &v in ch {
            if let Some(m) = i2f_single::<S>(v) {
                ctx.violation(&format!("i2f.{}", S::FMT.name()), json!({"sys":"i2f","src":S::FMT.name(),"v":v.to_string()}), m, Some(&|| i2f_single::<S>(v)));
                break;
            }
        }
        tot.evals.fetch_add(2 * ch.len() as u64, Relaxed);
        tot.distinct.fetch_add(ch.len() as u64, Relaxed);
        guard::leave();
    });
}

// ---------------------------------------------------------------- float -> int
fn f2i_single<T: IntS + FromSample<f32> + FromSample<f64>>(x: f64, from32: bool) -> Option<String> {
    let exp = f64_to_int(T::FMT, x)?; // None: outside the documented domain
    let got = if from32 { T::from_sample(x as f32).to_i128() } else { T::from_sample(x).to_i128() };
    if got != exp {
        return Some(format!("{} {x:e} -> {} gave {got}, trunc(x * 2^{}) re-offset is {exp}", if from32 { "f32" } else { "f64" }, T::FMT.name(), T::FMT.bits() - 1));
    }
    None
}

fn f32_pieces(thorough: bool) -> Vec<Piece> {
    let mut d = Domain::new(32);
    if thorough {
        d.add_range(0, 0x3f7f_ffff);
        d.add_range(0x8000_0000, 0xbf80_0000);
    } else {
        let f = Arc::new(fills(11, true));
        d.pieces.push(Piece::Lat { low: 11, fills: f.clone(), p_lo: 0, p_hi: (126 << 12) | 0xfff });
        d.pieces.push(Piece::Lat { low: 11, fills: f, p_lo: 1 << 20, p_hi: (1 << 20) | (126 << 12) | 0xfff });
        d.add_range(0xbf80_0000, 0xbf80_0000);
        // neighbourhoods of 0, +-0.5, -1 and of 1-
        for c in [0u64, 0x3f00_0000, 0xbf00_0000, 0x8000_0000] {
            d.add_range(c, c + 4096);
        }
        d.add_range(0x3f7f_ffff - 4096, 0x3f7f_ffff);
        d.add_range(0xbf80_0000 - 4096, 0xbf80_0000);
    }
    d.pieces
}

fn f64_pieces(thorough: bool) -> Vec<Piece> {
    let top = if thorough { 16 } else { 10 };
    let low = 52 - top;
    let f = Arc::new(fills(low, true));
    let per = 1u64 << 14;
    let mut v = Vec::new();
    for sign in 0..2u64 {
        let lo = sign << (11 + top);
        let hi = lo | (1022 << top) | ((1 << top) - 1);
        let mut a = lo;
        loop {
            let b = (a + per - 1).min(hi);
            v.push(Piece::Lat { low, fills: f.clone(), p_lo: a, p_hi: b });
            if b == hi {
                break;
            }
            a = b + 1;
        }
    }
    v.push(Piece::Range((-1.0f64).to_bits(), (-1.0f64).to_bits()));
    v
}

fn f2i_sweep<T: IntS + FromSample<f32> + FromSample<f64>>(ctx: &Ctx, tot: &Tot, p32: &[Piece], p64: &[Piece]) {
    for (from32, pieces) in [(true, p32), (false, p64)] {
        pieces.par_iter().for_each(|piece| {
            let _guard_scope = guard::scoped(&json!({"sys":"f2i","dst":T::FMT.name(),"from32":from32,"piece":piece.describe()}).to_string());
            let mut n = 0u64;
            let mut ch = 0u64;
            let mut prev = i128::MIN;
            let mut bad: Option<f64> = None;
            piece.for_each(|b| {
                let x = if from32 { f32::from_bits(b as u32) as f64 } else { f64::from_bits(b) };
                n += 1;
                let got = if from32 { T::from_sample(f32::from_bits(b as u32)).to_i128() } else { T::from_sample(x).to_i128() };
                if Some(got) != f64_to_int(T::FMT, x) {
                    if bad.is_none() {
                        bad = Some(x);
                    }
                } else if got != prev {
                    ch += 1;
                    prev = got;
                }
            });
            tot.evals.fetch_add(n, Relaxed);
            tot.distinct.fetch_add(ch, Relaxed);
            if let Some(x) = bad {
                ctx.violation(
                    &format!("f2i.{}", T::FMT.name()),
                    json!({"sys":"f2i","dst":T::FMT.name(),"from32":from32,"bits":x.to_bits().to_string()}),
                    f2i_single::<T>(x, from32).unwrap_or_else(|| format!("{x:e} -> {}: disagreement", T::FMT.name())),
                    Some(&|| f2i_single::<T>(x, from32)),
                );
            }
            guard::leave();
        });
    }
}

/// truncation boundaries: for every value v of T, the double v/2^(b-1) and
/// its two neighbours, converted to T; and the inverse law T(F(v)) == v where
/// the width fits the mantissa.
fn boundary_single<T: IntS + FromSample<f32> + FromSample<f64> + ToSample<f32> + ToSample<f64>>(v: i128) -> Option<String> {
    let x = int_to_f64(T::FMT, v); // exact for bits <= 53
    for y in [x, f64::from_bits(x.to_bits() + 1), if x == 0.0 { -f64::from_bits(1) } else { f64::from_bits(x.to_bits() - 1) }] {
        if let Some(m) = f2i_single::<T>(y, false) {
            return Some(m);
        }
    }
    let s = T::from_i128(v);
    if T::FMT.bits() <= 53 {
        let f: f64 = s.to_sample();
        if T::from_sample(f) != s {
            return Some(format!("{} {v} -> f64 -> {} does not return the input (got {})", T::FMT.name(), T::FMT.name(), T::from_sample(f).to_i128()));
        }
    }
    if T::FMT.bits() <= 24 {
        let f: f32 = s.to_sample();
        if T::from_sample(f) != s {
            return Some(format!("{} {v} -> f32 -> {} does not return the input (got {})", T::FMT.name(), T::FMT.name(), T::from_sample(f).to_i128()));
        }
    }
    None
}

fn boundary_sweep<T: IntS + FromSample<f32> + FromSample<f64> + ToSample<f32> + ToSample<f64>>(ctx: &Ctx, tot: &Tot, dom: &Domain) {
    let min = T::FMT.min();
    dom.pieces.par_iter().for_each(|piece| {
        let _guard_scope = guard::scoped(&json!({"sys":"boundary","fmt":T::FMT.name(),"piece":piece.describe()}).to_string());
        let mut n = 0u64;
        let mut bad = None;
        piece.for_each(|u| {
            let v = min + u as i128;
            n += 1;
            if bad.is_none() {
                if let Some(m) = boundary_single::<T>(v) {
                    bad = Some((v, m));
                }
            }
        });
        tot.evals.fetch_add(4 * n, Relaxed);
        if let Some((v, m)) = bad {
            ctx.violation(&format!("boundary.{}", T::FMT.name()), json!({"sys":"boundary","fmt":T::FMT.name(),"v":v.to_string()}), m, Some(&|| boundary_single::<T>(v)));
        }
        guard::leave();
    });
}

// ---------------------------------------------------------------- float <-> float
fn f32_f64_single(b: u32) -> Option<String> {
    let x = f32::from_bits(b);
    let g: f64 = x.to_sample();
    let e = f32_to_f64(x);
    if (g.is_nan() && e.is_nan()) || g.to_bits() == e.to_bits() {
        None
    } else {
        Some(format!("f32 {x:e} ({b:#x}) -> f64 gave {g:e}, exact widening is {e:e}"))
    }
}

fn f64_f32_single(d: f64) -> Option<String> {
    let g: f32 = d.to_sample();
    let e = f64_to_f32(d);
    if (g.is_nan() && e.is_nan()) || g.to_bits() == e.to_bits() {
        None
    } else {
        Some(format!("f64 {d:e} ({:#x}) -> f32 gave {g:e} ({:#x}), round-to-nearest-even is {e:e} ({:#x})", d.to_bits(), g.to_bits(), e.to_bits()))
    }
}

/// the rounding decision boundaries around the f32 value with pattern b
fn around(b: u32) -> [f64; 7] {
    let v = f32::from_bits(b);
    let d = v as f64;
    let nb = if (b & 0x7fff_ffff) < 0x7f7f_ffff { b + 1 } else { b };
    let next = f32::from_bits(nb) as f64;
    let mid = (d + next) / 2.0;
    let up = |x: f64| f64::from_bits(x.to_bits().wrapping_add(1));
    let dn = |x: f64| if x == 0.0 { x } else { f64::from_bits(x.to_bits().wrapping_sub(1)) };
    [d, up(d), dn(d), mid, up(mid), dn(mid), next]
}

fn ff_sweep(ctx: &Ctx, tot: &Tot, pieces: &[Piece]) {
    pieces.par_iter().for_each(|piece| {
        let _guard_scope = guard::scoped(&json!({"sys":"ff","piece":piece.describe()}).to_string());
        let mut n = 0u64;
        let mut bad32 = None;
        let mut bad64 = None;
        piece.for_each(|b| {
            let b = b as u32;
            n += 1;
            if bad32.is_none() && f32_f64_single(b).is_some() {
                bad32 = Some(b);
            }
            if !f32::from_bits(b).is_nan() && !f32::from_bits(b).is_infinite() {
                for d in around(b) {
                    if bad64.is_none() && f64_f32_single(d).is_some() {
                        bad64 = Some(d);
                    }
                }
            }
        });
        tot.evals.fetch_add(8 * n, Relaxed);
        tot.distinct.fetch_add(n, Relaxed);
        if let Some(b) = bad32 {
            ctx.violation("f32->f64", json!({"sys":"f32_f64","bits":b}), f32_f64_single(b).unwrap_or_default(), Some(&|| f32_f64_single(b)));
        }
        if let Some(d) = bad64 {
            ctx.violation("f64->f32", json!({"sys":"f64_f32","bits":d.to_bits().to_string()}), f64_f32_single(d).unwrap_or_default(), Some(&|| f64_f32_single(d)));
        }
        guard::leave();
    });
}

fn replay(v: &Value) -> Option<String> {
    let sys = v["sys"].as_str().unwrap_or("");
    let bits64 = || v["bits"].as_str().and_then(|s| s.parse::<u64>().ok()).or(v["bits"].as_u64()).unwrap_or(0);
    let val = || v["v"].as_str().and_then(|s| s.parse::<i128>().ok()).unwrap_or(0);
    macro_rules! by_fmt {
        ($name:expr, $f:ident $(, $a:expr)*) => {
            match fmt_by_name($name)? {
                Fmt::I8 => $f::<i8>($($a),*), Fmt::I16 => $f::<i16>($($a),*), Fmt::I24 => $f::<I24>($($a),*), Fmt::I32 => $f::<i32>($($a),*),
                Fmt::I48 => $f::<I48>($($a),*), Fmt::I64 => $f::<i64>($($a),*), Fmt::U8 => $f::<u8>($($a),*), Fmt::U16 => $f::<u16>($($a),*),
                Fmt::U24 => $f::<U24>($($a),*), Fmt::U32 => $f::<u32>($($a),*), Fmt::U48 => $f::<U48>($($a),*), Fmt::U64 => $f::<u64>($($a),*),
                _ => None,
            }
        };
    }
    match sys {
        "i2f" => by_fmt!(v["src"].as_str()?, i2f_single, val()),
        "f2i" => by_fmt!(v["dst"].as_str()?, f2i_single, f64::from_bits(bits64()), v["from32"].as_bool().unwrap_or(false)),
        "boundary" => by_fmt!(v["fmt"].as_str()?, boundary_single, val()),
        "f32_f64" => f32_f64_single(bits64() as u32),
        "f64_f32" => f64_f32_single(f64::from_bits(bits64())),
        _ => Some("unknown C02 case".into()),
    }
}

fn main() {
    let ctx = Ctx::new("C02", "release");
    if let Some(v) = ctx.replay_case() {
        let _guard_scope = guard::scoped(&v.to_string());
        ctx.finish_replay(catch(|| replay(&v)).unwrap_or_else(|p| Some(format!("panic: {p}"))));
    }
    guard::set_hang_secs(900);
    let thorough = ctx.thorough();
    let tot = Tot { evals: AtomicU64::new(0), distinct: AtomicU64::new(0) };

    // int -> float: complete for <=32-bit sources (32-bit: thorough), lattice for 48/64
    let src_dom = |bits: u32| -> Domain {
        if bits <= 24 || (bits == 32 && thorough) {
            Domain::complete(bits)
        } else {
            let mut d = Domain::new(bits);
            d.add_lattice(if bits == 32 { 20 } else if thorough { 26 } else { 18 }, true);
            d.add_boundaries(1 << 16, 4096);
            d
        }
    };
    let mut rounding_pts = 0usize;
    macro_rules! i2f {
        ($m:ident, $S:ty) => {
            i2f_sweep::<$S>(&ctx, &tot, &src_dom(<$S as IntS>::FMT.bits()));
            if <$S as IntS>::FMT.bits() > 24 {
                let pts = rounding_points(<$S as IntS>::FMT);
                rounding_pts += pts.len();
                i2f_points::<$S>(&ctx, &tot, &pts);
            }
        };
    }
    for_int_fmts!(i2f);
    ctx.set("rounding_lattice_points", json!(rounding_pts));

    // float -> int
    let p32 = f32_pieces(thorough);
    let p64 = f64_pieces(thorough);
    ctx.set("f32_source_patterns", json!(p32.iter().map(|p| p.points()).sum::<u128>() as u64));
    ctx.set("f64_source_patterns", json!(p64.iter().map(|p| p.points()).sum::<u128>() as u64));
    macro_rules! f2i {
        ($m:ident, $T:ty) => {
            f2i_sweep::<$T>(&ctx, &tot, &p32, &p64);
        };
    }
    for_int_fmts!(f2i);

    // truncation boundaries + inverse law
    let bdom = |bits: u32| -> Domain {
        if bits <= 24 || (bits == 32 && thorough) {
            Domain::complete(bits)
        } else {
            let mut d = Domain::new(bits);
            d.add_lattice(16, true);
            d.add_boundaries(1 << 12, 256);
            d
        }
    };
    macro_rules! bnd {
        ($m:ident, $T:ty) => {
            if <$T as IntS>::FMT.bits() <= 53 {
                boundary_sweep::<$T>(&ctx, &tot, &bdom(<$T as IntS>::FMT.bits()));
            }
        };
    }
    for_int_fmts!(bnd);

    // float <-> float
    let ff: Vec<Piece> = if thorough {
        Domain::complete(32).pieces
    } else {
        let mut d = Domain::new(32);
        d.add_lattice(21, true); // sign, exponent, 12 top mantissa bits x fills of the low 11
        d.add_boundaries(1 << 12, 64);
        d.pieces
    };
    ctx.set("f32_patterns_for_float_float", json!(ff.iter().map(|p| p.points()).sum::<u128>() as u64));
    ff_sweep(&ctx, &tot, &ff);

    ctx.add_evals(tot.evals.load(Relaxed));
    ctx.add_distinct_counted(tot.distinct.load(Relaxed));
    ctx.set("exhaustive", json!(false));
    ctx.set("exhaustive_scope", json!(if thorough { "complete: every value of the <=32-bit integer formats -> f32/f64, every f32 in [-1,1) -> 12 integer formats, every f32 -> f64, all rounding boundaries of f64 -> f32 around every finite f32; lattice: 48/64-bit integers, f64 sources" } else { "complete: <=24-bit integer formats -> floats and their truncation boundaries; lattices elsewhere (see rule)" }));
    ctx.rule("int->float: every value of the source domain (complete <=24 bit; 32 bit complete in thorough, 2^20-top-pattern lattice in quick; 48/64 bit: all 2^18 (quick) / 2^26 (thorough) top-bit patterns x tie fills + boundaries) through to_sample::<f32/f64> vs integer round-to-nearest-even of amplitude/2^(bits-1); in [-1,1]; non-decreasing; plus, for every source wider than 24 bits, a rounding-decision lattice: every leading-bit position x both mantissa widths x structured mantissa patterns x round bit x middle/sticky patterns with a lone sticky bit at every position (ties, near-ties and double-rounding traps)");
    ctx.rule("float->int: f32 in [-1,1): every pattern (thorough) / every exponent x 2^12 top mantissa patterns x 8 fills + neighbourhoods (quick); f64: every exponent x 2^10 (quick) / 2^16 (thorough) top mantissa patterns x 8 fills x 2 signs; x 12 integer targets vs exact trunc(x*2^(bits-1)) re-offset; truncation boundaries v/2^(b-1) and both neighbours for every v of the <=24-bit (thorough: <=32-bit) formats, lattice for 48-bit; inverse law T(F(v))==v where the width fits the mantissa");
    ctx.rule("f32->f64: bit-level exact widening; f64->f32: around every enumerated f32 value v the doubles v, v+-1ulp, midpoint to the next f32, midpoint+-1ulp, next vs integer RNE; distinct_nontrivial = distinct outputs counted per piece");
    ctx.sample(json!({"sys":"i2f","src":"i32","v":"1073741825","meaning":"0x40000001: needs rounding to 24 bits -> 0.5"}));
    ctx.sample(json!({"sys":"f2i","dst":"U24","from32":true,"bits": (-0.999_999_9f32 as f64).to_bits().to_string()}));
    ctx.sample(json!({"sys":"f64_f32","bits": 1.000_000_059_604_644_8f64.to_bits().to_string(), "meaning":"midpoint between two f32 values: tie to even"}));
    ctx.assume("NaN, infinities and |x| >= 1 are outside the documented float->int domain and are not fed (float->float does include them)");
    ctx.assume("`f32 as f64` widening is used to feed f32 sources to the f64 reference (itself checked against the bit-level reference by the f32->f64 sweep)");
    ctx.finish();
}
