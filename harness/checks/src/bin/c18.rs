//! C18 — sinc interpolation: transparency at ratio 1, linearity measured by
//! superposition of impulse responses taken on the real code, constant
//! reproduction, finiteness, reset.

use checks::probe::Probe;
use common::{catch, guard, json, Ctx, Value};
use dasp_frame::Frame;
use dasp_interpolate::{sinc::Sinc, Interpolator};
use dasp_ring_buffer::Fixed;
use dasp_signal::interpolate::Converter;
use dasp_signal::Signal;
use rayon::prelude::*;
use std::fmt::Debug;
use std::sync::atomic::{AtomicU64, Ordering::Relaxed};

type Bad = (String, String);
const ALPHA: [f64; 5] = [-1.0, -0.5, 0.0, 0.5, 1.0];

trait SF: Frame + Debug + PartialEq + Send + Sync + 'static {
    const NAME: &'static str;
    const INT: bool;
    const EPS: f64;
    /// frame carrying amplitude a (|a| <= 2) in every channel (channel 1 negated)
    fn of(a: f64) -> Self;
    /// channel values back in the units of `of`
    fn val(self) -> Vec<f64>;
    /// one LSB in the units of `of` (ints), 0 for floats
    const LSB: f64;
}
impl SF for f64 {
    const NAME: &'static str = "f64";
    const INT: bool = false;
    const EPS: f64 = f64::EPSILON;
    const LSB: f64 = 0.0;
    fn of(a: f64) -> f64 {
        a * 0.5
    }
    fn val(self) -> Vec<f64> {
        vec![self * 2.0]
    }
}
impl SF for [f32; 2] {
    const NAME: &'static str = "[f32;2]";
    const INT: bool = false;
    const EPS: f64 = f32::EPSILON as f64;
    const LSB: f64 = 0.0;
    fn of(a: f64) -> Self {
        [(a * 0.5) as f32, (-a * 0.5) as f32]
    }
    fn val(self) -> Vec<f64> {
        vec![self[0] as f64 * 2.0, -(self[1] as f64) * 2.0]
    }
}
impl SF for [i16; 1] {
    const NAME: &'static str = "[i16;1]";
    const INT: bool = true;
    const EPS: f64 = 0.0;
    const LSB: f64 = 1.0 / 8192.0;
    fn of(a: f64) -> Self {
        [(a * 8192.0) as i16]
    }
    fn val(self) -> Vec<f64> {
        vec![self[0] as f64 / 8192.0]
    }
}

fn fresh<F: SF>(depth: usize) -> Sinc<Vec<F>>
where
    F::Sample: dasp_sample::Duplex<f64>,
{
    Sinc::new(Fixed::from(vec![F::EQUILIBRIUM; 2 * depth]))
}

/// (a) ratio 1 through the Converter: pure delay of `depth` frames
fn transparent_case<F: SF>(depth: usize, src: &[f64]) -> Option<Bad>
where
    F::Sample: dasp_sample::Duplex<f64>,
{
    let frames: Vec<F> = src.iter().map(|&a| F::of(a)).collect();
    let (p, c) = Probe::new(frames.clone());
    let mut cv = Converter::scale_playback_hz(p, fresh::<F>(depth), 1.0);
    let peak = src.iter().fold(0.0f64, |m, a| m.max(a.abs()));
    for k in 0..src.len() + depth + 3 {
        let out = cv.next().val();
        let exp = if k >= depth && k - depth < src.len() { src[k - depth] } else { 0.0 };
        for (ch, o) in out.iter().enumerate() {
            if !o.is_finite() || (o - exp).abs() > 1e-12 * peak + if F::INT { 0.0 } else { 2.0 * F::EPS * exp.abs() } {
                return Some(("sinc.transparent".into(), format!("{} depth {depth} source {src:?}: output {k} channel {ch} = {o}, expected the source delayed by {depth} frames: {exp}", F::NAME)));
            }
        }
        if c.pulls() != k {
            return Some(("sinc.transparent".into(), format!("{} depth {depth}: {} source pulls before output {}", F::NAME, c.pulls(), k + 1)));
        }
    }
    None
}

/// interpolate at x after pushing `pre` equilibrium frames and then `h`
fn out_after<F: SF>(depth: usize, pre: usize, h: &[f64], x: f64) -> Vec<f64>
where
    F::Sample: dasp_sample::Duplex<f64>,
{
    let mut s = fresh::<F>(depth);
    for _ in 0..pre {
        s.next_source_frame(F::EQUILIBRIUM);
    }
    for &a in h {
        s.next_source_frame(F::of(a));
    }
    s.interpolate(x).val()
}

/// (b)+(c) linearity at (depth, priming level, history length, x): every history over the alphabet
fn linear_case<F: SF>(depth: usize, pre: usize, l: usize, x: f64) -> Option<Bad>
where
    F::Sample: dasp_sample::Duplex<f64>,
{
    let tag = format!("{} depth {depth}, {pre} equilibrium frames then {l} frames pushed, x = {x}", F::NAME);
    let mut imp: Vec<Vec<f64>> = Vec::new();
    for j in 0..l {
        let mut e = vec![0.0; l];
        e[j] = 1.0;
        imp.push(out_after::<F>(depth, pre, &e, x));
    }
    let ch_n = imp.first().map(|v| v.len()).unwrap_or(1);
    let tol = |peak: f64| if F::INT { (2.0 * depth as f64 + 2.0) * F::LSB * 1.0001 } else { (8.0 * depth as f64 + 64.0) * F::EPS * peak.max(1e-300) };
    for code in 0..5usize.pow(l as u32) {
        let h: Vec<f64> = (0..l).map(|j| ALPHA[(code / 5usize.pow(j as u32)) % 5]).collect();
        let o = out_after::<F>(depth, pre, &h, x);
        let peak = h.iter().fold(0.0f64, |m, a| m.max(a.abs()));
        for ch in 0..ch_n {
            if !o[ch].is_finite() {
                return Some(("sinc.finite".into(), format!("{tag}: history {h:?} gives a non-finite output {}", o[ch])));
            }
            let sup: f64 = (0..l).map(|j| h[j] * imp[j][ch]).sum();
            // superposition: per-tap truncation for ints accumulates over the taps of every impulse response
            let t = if F::INT { tol(peak) * (l as f64).max(1.0) } else { tol(peak) * 2.0 };
            if (o[ch] - sup).abs() > t {
                return Some(("sinc.linear".into(), format!("{tag}: history {h:?} channel {ch} gives {}, superposition of the measured impulse responses gives {sup} (tolerance {t:e})", o[ch])));
            }
        }
        // scaling
        for c in [-1.0, 0.5, 2.0] {
            if F::INT && c == 0.5 && h.iter().any(|a| (a * 8192.0 * 0.5).fract() != 0.0) {
                continue;
            }
            let hc: Vec<f64> = h.iter().map(|a| a * c).collect();
            let oc = out_after::<F>(depth, pre, &hc, x);
            for ch in 0..ch_n {
                let t = if F::INT { tol(peak) * (1.0 + c.abs()) } else { tol(peak * c.abs()) * 2.0 };
                if (oc[ch] - c * o[ch]).abs() > t {
                    return Some(("sinc.scale".into(), format!("{tag}: history {h:?} scaled by {c} gives {} in channel {ch}, {c} x the unscaled output is {}", oc[ch], c * o[ch])));
                }
            }
        }
    }
    None
}

/// (d) constant input reproduced within 1% once primed, depth >= 4
fn constant_case<F: SF>(depth: usize, cval: f64, extra: usize) -> Option<Bad>
where
    F::Sample: dasp_sample::Duplex<f64>,
{
    let mut s = fresh::<F>(depth);
    for _ in 0..2 * depth + extra {
        s.next_source_frame(F::of(cval));
    }
    // the 1/256 grid, then the boundary lattice of the position domain [0, 1): powers of two and of
    // ten down to the smallest subnormal, and their complements just below 1
    let mut xs: Vec<f64> = (0..256).map(|i| i as f64 / 256.0).collect();
    for k in 1..=64 {
        xs.push(0.5f64.powi(k));
        if k <= 53 {
            xs.push(1.0 - 0.5f64.powi(k));
        }
    }
    for k in 3..=16 {
        xs.push(10f64.powi(-k));
        xs.push(3.0 * 10f64.powi(-k));
        if k <= 15 {
            xs.push(1.0 - 10f64.powi(-k));
        }
    }
    xs.extend([f64::MIN_POSITIVE, 5e-324, 1e-100, 1e-300]);
    for x in xs {
        for (ch, o) in s.interpolate(x).val().iter().enumerate() {
            if (o - cval).abs() > 0.01 * cval.abs() + F::LSB {
                return Some(("sinc.constant".into(), format!("{} depth {depth}: constant input {cval} after {} frames, x = {x}: channel {ch} = {o} (more than 1% off)", F::NAME, 2 * depth + extra)));
            }
        }
    }
    None
}

/// (e) reset after a history, then a continuation: same outputs as a fresh interpolator
fn reset_case<F: SF>(depth: usize, before: &[f64], after: &[f64]) -> Option<Bad>
where
    F::Sample: dasp_sample::Duplex<f64>,
{
    let mut a = fresh::<F>(depth);
    for &v in before {
        a.next_source_frame(F::of(v));
    }
    a.reset();
    let mut b = fresh::<F>(depth);
    for x in [0.0, 0.3125] {
        if a.interpolate(x) != F::EQUILIBRIUM {
            return Some(("sinc.reset".into(), format!("{} depth {depth}: after history {before:?} and reset(), interpolate({x}) = {:?}, expected silence", F::NAME, a.interpolate(x))));
        }
    }
    for &v in after {
        a.next_source_frame(F::of(v));
        b.next_source_frame(F::of(v));
        for x in [0.0, 0.3125, 0.9375] {
            let (oa, ob) = (a.interpolate(x), b.interpolate(x));
            if oa != ob {
                return Some(("sinc.reset".into(), format!("{} depth {depth}: after history {before:?}, reset() and continuation up to {v}: interpolate({x}) = {oa:?}, a fresh interpolator gives {ob:?}", F::NAME)));
            }
        }
    }
    None
}

// ------------------------------------------------------------ loud integer input
/// (f) Loud integer input (up to 0.95 of full scale): the enumerated histories above stay at a
/// quarter of full scale, where no sum can leave the sample range. Here the kernel is modelled
/// independently (weight of the tap at distance t: sinc(t) x (0.5 + 0.5 cos(pi t / depth)); every
/// tap contribution truncated toward zero, accumulated centre-first as the implementation does) so
/// that the result and every partial sum are known as integers.
/// * result fits and no panic: the output must equal the modelled sum within 2 depth + 2 LSB;
/// * a panic although every centre-first partial sum stays inside the sample range with a margin:
///   a violation (`sinc.panic`);
/// * a panic where a centre-first partial sum leaves the sample range although the result fits: the
///   recorded finding `sinc.int-partial-sum-overflow` (builds with overflow checks only).
fn loud_case(fmt: usize, depth: usize, pattern: usize, amp_pct: usize, x16: usize) -> Option<Bad> {
    let x = x16 as f64 / 16.0;
    let (half, name) = if fmt == 0 { (32768i64, "[i16;1]") } else { (128i64, "[u8;1]") };
    let a = (half - 1) * amp_pct as i64 / 100;
    let hist: Vec<i64> = (0..2 * depth + 3)
        .map(|i| match pattern {
            0 => a,
            1 => if i % 2 == 0 { a } else { -a },
            2 => if (i / 2) % 2 == 0 { a } else { -a },
            3 => if i + 1 >= depth + 3 && i + 1 <= depth + 4 { a } else { 0 },
            _ => -a,
        })
        .collect();
    let tag = format!("{name} depth {depth}, history of signed amplitudes {hist:?} (full scale {half}), x = {x}");
    // the ring holds the last 2*depth frames, oldest first
    let ring: Vec<i64> = hist[hist.len() - 2 * depth..].to_vec();
    let w = |t: f64| -> f64 {
        let arg = std::f64::consts::PI * t;
        (if arg == 0.0 { 1.0 } else { arg.sin() / arg }) * (0.5 + 0.5 * (arg / depth as f64).cos())
    };
    let term = |wt: f64, v: i64| -> i64 { (wt * (v as f64 / half as f64) * half as f64) as i64 };
    let mut acc = 0i64;
    let (mut lo, mut hi) = (0i64, 0i64);
    for n in 0..depth {
        acc += term(w(x + n as f64), ring[depth - n]);
        lo = lo.min(acc);
        hi = hi.max(acc);
        acc += term(w(1.0 - x + n as f64), ring[(depth + 1 + n) % (2 * depth)]);
        lo = lo.min(acc);
        hi = hi.max(acc);
    }
    let margin = 2 * depth as i64 + 2;
    let fits = |v: i64, m: i64| v - m >= -half && v + m <= half - 1;
    let out: Result<i64, String> = if fmt == 0 {
        let mut s = Sinc::new(Fixed::from(vec![[0i16; 1]; 2 * depth]));
        for &v in &hist {
            s.next_source_frame([v as i16]);
        }
        catch(|| s.interpolate(x)[0] as i64)
    } else {
        let mut s = Sinc::new(Fixed::from(vec![[128u8; 1]; 2 * depth]));
        for &v in &hist {
            s.next_source_frame([(v + 128) as u8]);
        }
        catch(|| s.interpolate(x)[0] as i64 - 128)
    };
    match out {
        Ok(o) => {
            if fits(acc, margin) && (o - acc).abs() > margin {
                return Some(("sinc.loud".into(), format!("{tag}: output amplitude {o}, the kernel model (centre-first sum of truncated tap contributions) gives {acc}")));
            }
            None
        }
        Err(p) => {
            if fits(lo, margin) && fits(hi, margin) {
                Some(("sinc.panic".into(), format!("{tag}: panicked ({p}) although every partial sum of the tap contributions stays within [{lo}, {hi}]")))
            } else if !fits(lo, -margin) || !fits(hi, -margin) {
                if fits(acc, margin) {
                    Some(("sinc.int-partial-sum-overflow".into(), format!("{tag}: panicked ({p}): the result {acc} fits but a centre-first partial sum reaches [{lo}, {hi}]")))
                } else {
                    None // the result itself leaves the sample range: outside the property's domain
                }
            } else {
                None // a partial sum within rounding distance of the range limit: not judged
            }
        }
    }
}

fn dispatch(v: &Value) -> Option<Bad> {
    if v["sys"] == "loud" {
        let g = |k: &str| v[k].as_u64().unwrap_or(0) as usize;
        return loud_case(g("fmt_ix"), g("depth"), g("pattern"), g("amp_pct"), g("x16"));
    }
    let us = |k: &str| v[k].as_u64().unwrap_or(0) as usize;
    let fl = |k: &str| -> Vec<f64> { v[k].as_array().map(|a| a.iter().map(|x| x.as_f64().unwrap_or(0.0)).collect()).unwrap_or_default() };
    let x = v["x"].as_f64().unwrap_or(0.0);
    macro_rules! go {
        ($F:ty) => {
            match v["sys"].as_str().unwrap_or("") {
                "transparent" => transparent_case::<$F>(us("depth"), &fl("src")),
                "linear" => linear_case::<$F>(us("depth"), us("pre"), us("l"), x),
                "constant" => constant_case::<$F>(us("depth"), v["c"].as_f64().unwrap_or(1.0), us("extra")),
                "reset" => reset_case::<$F>(us("depth"), &fl("before"), &fl("after")),
                _ => Some(("c18".into(), "unknown".into())),
            }
        };
    }
    match v["fmt"].as_str().unwrap_or("") {
        "f64" => go!(f64),
        "[f32;2]" => go!([f32; 2]),
        _ => go!([i16; 1]),
    }
}

fn main() {
    let ctx = Ctx::new("C18", "release");
    if let Some(v) = ctx.replay_case() {
        let _guard_scope = guard::scoped(&v.to_string());
        ctx.finish_replay(catch(|| dispatch(&v)).unwrap_or_else(|p| Some(("panic".into(), p))).map(|e| format!("{}: {}", e.0, e.1)));
    }
    guard::set_hang_secs(300);
    let thorough = ctx.thorough();
    let depths: Vec<usize> = if thorough { (1..=16).chain([17, 20, 25, 31, 32, 33, 50, 63, 64, 65, 100, 127, 128, 129, 200, 256]).collect() } else { (1..=8).chain([12, 16, 17, 25, 32, 33, 50, 64, 100, 128]).collect() };
    let mut cases: Vec<Value> = Vec::new();
    for fmt in ["f64", "[f32;2]", "[i16;1]"] {
        for &d in &depths {
            // (a) every source over the alphabet of length <= 5 (4 in quick), plus impulse / step / ramp of length 3*depth
            let maxl = if thorough { 5 } else { 4 };
            for l in 0..=maxl {
                for code in 0..5usize.pow(l as u32) {
                    if d > 8 && code % 7 != 0 {
                        continue;
                    }
                    let src: Vec<f64> = (0..l).map(|j| ALPHA[(code / 5usize.pow(j as u32)) % 5]).collect();
                    cases.push(json!({"sys":"transparent","fmt":fmt,"depth":d,"src":src}));
                }
            }
            let n = 3 * d;
            let imp: Vec<f64> = (0..n).map(|i| if i == d { 1.0 } else { 0.0 }).collect();
            let step: Vec<f64> = (0..n).map(|i| if i >= d { 0.5 } else { 0.0 }).collect();
            let ramp: Vec<f64> = (0..n).map(|i| (i as f64 / n as f64 * 64.0).round() / 64.0).collect();
            for s in [imp, step, ramp] {
                cases.push(json!({"sys":"transparent","fmt":fmt,"depth":d,"src":s}));
            }
            // (b) linearity
            let ls: Vec<usize> = if d <= 8 { (1..=if thorough { 5 } else { 3 }).collect() } else { vec![2] };
            let xs: Vec<f64> = (0..16).step_by(if thorough { 1 } else { 2 }).map(|i| i as f64 / 16.0).collect();
            let pres: Vec<usize> = if d <= 8 { (0..=2 * d).collect() } else { vec![0, d, 2 * d] };
            for &pre in &pres {
                for &l in &ls {
                    for &x in &xs {
                        cases.push(json!({"sys":"linear","fmt":fmt,"depth":d,"pre":pre,"l":l,"x":x}));
                    }
                }
            }
            // (d) constant
            if d >= 4 {
                for c in [1.0, -0.5, 0.25] {
                    for extra in [0usize, 1, 7] {
                        cases.push(json!({"sys":"constant","fmt":fmt,"depth":d,"c":c,"extra":extra}));
                    }
                }
            }
            // (e) reset
            if d <= 8 {
                for bl in 0..=3usize {
                    for bc in 0..5usize.pow(bl as u32) {
                        let before: Vec<f64> = (0..bl).map(|j| ALPHA[(bc / 5usize.pow(j as u32)) % 5]).collect();
                        for ac in (0..125usize).step_by(if thorough { 1 } else { 6 }) {
                            let after: Vec<f64> = (0..3).map(|j| ALPHA[(ac / 5usize.pow(j as u32)) % 5]).collect();
                            cases.push(json!({"sys":"reset","fmt":fmt,"depth":d,"before":before,"after":after}));
                        }
                    }
                }
            }
        }
    }
    // (f) loud integer input
    for fmt_ix in 0..2usize {
        for d in [1usize, 2, 3, 4, 8, 16] {
            for pattern in 0..5usize {
                for amp_pct in [50usize, 70, 88, 95] {
                    for x16 in 0..16usize {
                        cases.push(json!({"sys":"loud","fmt_ix":fmt_ix,"depth":d,"pattern":pattern,"amp_pct":amp_pct,"x16":x16}));
                    }
                }
            }
        }
    }
    let evals = AtomicU64::new(0);
    cases.par_iter().for_each(|case| {
        let _guard_scope = guard::scoped(&case.to_string());
        evals.fetch_add(1, Relaxed);
        match catch(|| dispatch(case)) {
            Ok(None) => ctx.observe(common::fnv_str(&case.to_string())),
            Ok(Some((k, m))) => ctx.violation(&k, case.clone(), m, Some(&|| dispatch(case).map(|e| e.1))),
            Err(p) => ctx.violation("sinc.panic", case.clone(), format!("panic: {p}"), None),
        }
        guard::leave();
    });
    ctx.add_evals(evals.load(Relaxed));
    ctx.set("cases", json!(cases.len()));
    ctx.set("depths", json!(depths));
    ctx.set("exhaustive", json!(true));
    ctx.set("exhaustive_scope", json!("the stated finite grid of depths, fractional positions, priming levels and histories over a 5-letter alphabet; other depths / positions / amplitudes are not explored"));
    ctx.rule("frames f64, [f32;2], [i16;1]; depths 1..=8 and scale probes 12,16,17,25,32,33,50,64,100,128 (thorough 1..=16 and 17,20,25,31,32,33,50,63,64,65,100,127,128,129,200,256; depths above 8 with every 7th source, histories of length 2 and priming levels 0, depth, 2*depth only); (a) ratio 1 through Converter over an instrumented source: every source over {-1,-1/2,0,1/2,1} of length <=4 (thorough 5) plus impulse/step/ramp of length 3*depth: output k == 0 for k<depth and source[k-depth] after, within 1e-12 x peak, one pull per output; (b) linearity at x in k/16 (quick k/8) and at every priming level 0..=2*depth: impulse responses out(e_j) measured on the real code, every history over the alphabet of length <=3 (thorough 5): |out(h) - sum h_j out(e_j)| within (8 depth + 64) ulp x peak (ints: (2 depth + 2) LSB per term), out(c h) == c out(h) for c in {-1,1/2,2}; (c) every output finite; (d) constant input, depth>=4, >=2*depth frames pushed, 256 grid positions plus the boundary lattice of [0,1) (2^-k to 2^-64, 1-2^-k to 1-2^-53, 10^-k and 3x10^-k to 1e-16, 1-10^-k, 1e-100, 1e-300, the smallest normal and subnormal): within 1%; (e) reset after every history of length <=3 then every continuation of length 3 == fresh interpolator; (f) loud integer input ([i16;1], [u8;1] at 50/70/88/95 % of full scale; constant, alternating, paired, centre-pair and negative histories; depths 1,2,3,4,8,16; 16 positions) against an independent integer model of the kernel: output == centre-first sum of truncated tap contributions within 2 depth + 2 LSB whenever it fits, and no panic unless a centre-first partial sum leaves the sample range (that case is the recorded finding sinc.int-partial-sum-overflow, seen only in builds with overflow checks); distinct by case");
    ctx.sample(json!({"sys":"linear","fmt":"[i16;1]","depth":3,"pre":2,"l":3,"x":0.4375}));
    ctx.sample(json!({"sys":"transparent","fmt":"f64","depth":5,"src":[1.0,-0.5,0.0,0.5]}));
    ctx.assume("libm sin/cos inside the kernel are not modelled: linearity is checked against impulse responses measured on the same build");
    ctx.finish();
}
