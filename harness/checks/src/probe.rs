//! Instrumented source signals.

use dasp_frame::Frame;
use dasp_signal::Signal;
use std::cell::Cell;
use std::rc::Rc;

/// Counters shared between a probe (possibly buried inside adaptors) and the
/// harness.
#[derive(Clone, Default)]
pub struct Counters {
    pub pulls: Rc<Cell<usize>>,
    pub exhausted_queries: Rc<Cell<usize>>,
    /// fault injection: when `Some(k)`, the call to `next()` made after exactly k counted pulls
    /// panics once instead of yielding (nothing is consumed or counted), and the trip is cleared
    pub trip: Rc<Cell<Option<usize>>>,
}

impl Counters {
    pub fn pulls(&self) -> usize {
        self.pulls.get()
    }
}

/// A finite source over explicit frames: frame n is `frames[n]`, equilibrium
/// after the end; counts `next()` calls. `is_exhausted()` is true exactly
/// when no frame remains. (A clone shares the counters.)
#[derive(Clone)]
pub struct Probe<F> {
    pub frames: Vec<F>,
    pub pos: usize,
    pub c: Counters,
}

impl<F: Frame> Probe<F> {
    pub fn new(frames: Vec<F>) -> (Self, Counters) {
        let c = Counters::default();
        (Probe { frames, pos: 0, c: c.clone() }, c)
    }
}

impl<F: Frame> Signal for Probe<F> {
    type Frame = F;
    fn next(&mut self) -> F {
        if self.c.trip.get() == Some(self.c.pulls.get()) {
            self.c.trip.set(None);
            panic!("injected source failure");
        }
        self.c.pulls.set(self.c.pulls.get() + 1);
        let f = self.frames.get(self.pos).copied().unwrap_or(F::EQUILIBRIUM);
        self.pos += 1;
        f
    }
    fn is_exhausted(&self) -> bool {
        self.c.exhausted_queries.set(self.c.exhausted_queries.get() + 1);
        self.pos >= self.frames.len()
    }
}

/// An infinite source whose n-th frame is produced by a function of n. (A clone shares the counters.)
#[derive(Clone)]
pub struct Gen<F, G: FnMut(usize) -> F> {
    pub n: usize,
    pub g: G,
    pub c: Counters,
}

impl<F: Frame, G: FnMut(usize) -> F> Gen<F, G> {
    pub fn new(g: G) -> (Self, Counters) {
        let c = Counters::default();
        (Gen { n: 0, g, c: c.clone() }, c)
    }
}

impl<F: Frame, G: FnMut(usize) -> F> Signal for Gen<F, G> {
    type Frame = F;
    fn next(&mut self) -> F {
        if self.c.trip.get() == Some(self.c.pulls.get()) {
            self.c.trip.set(None);
            panic!("injected source failure");
        }
        self.c.pulls.set(self.c.pulls.get() + 1);
        let f = (self.g)(self.n);
        self.n += 1;
        f
    }
}
