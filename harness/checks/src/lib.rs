//! Shared pieces of the dasp explorers that depend on the dasp crates.

pub mod domain;
pub mod fmts;
pub mod probe;
pub mod progs;
pub mod progs_main;
