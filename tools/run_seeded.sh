#!/bin/bash
# Run the property checks against every seeded defect under /verif/seeded/<name>/.
#   tools/run_seeded.sh [name ...]          (default: all)
# For each: refuse to start on a dirty /repo, apply patch.diff, (optionally) run the repository's
# own suite (must still pass: REPO_TESTS=1), run the quick check of the property named in
# meta.json, expect exit 1 + a VIOLATION line, and always revert. Results: seeded/RESULTS.md.
set -u
cd /verif
# evidence and replay artefacts of these runs (against deliberately broken trees) go to a scratch
# directory, never into /verif/evidence
export VERIF_OUT=${VERIF_OUT:-/tmp/verif_seed_out}
mkdir -p $VERIF_OUT
names=("$@")
[ ${#names[@]} -eq 0 ] && names=($(ls seeded | grep -v RESULTS.md))
out=seeded/RESULTS.md
tmp=$(mktemp)
echo "| seeded defect | property | repo suite with patch | check verdict | first violation key |" > $tmp
echo "|---|---|---|---|---|" >> $tmp
for n in "${names[@]}"; do
  d=seeded/$n
  [ -f $d/patch.diff ] || continue
  if [ -n "$(git -C /repo status --porcelain --untracked-files=no)" ]; then echo "/repo is dirty, refusing"; exit 2; fi
  prop=$(python3 -c "import json;print(json.load(open('$d/meta.json'))['property'])")
  extra=$(python3 -c "import json;print(' '.join(json.load(open('$d/meta.json')).get('also_check',[])))")
  if ! git -C /repo apply --check $PWD/$d/patch.diff 2>/dev/null; then echo "| $n | $prop | patch does not apply | - | - |" >> $tmp; continue; fi
  git -C /repo apply $PWD/$d/patch.diff
  suite="not run"
  if [ "${REPO_TESTS:-0}" = "1" ]; then
    if (cd /repo && cargo test --workspace --no-fail-fast --offline >/tmp/seed_suite.log 2>&1); then suite="passes"; else suite="FAILS"; fi
  fi
  verdict=""
  key=""
  for p in $prop $extra; do
    ./check $p quick > /tmp/seed_check_$n.log 2>&1
    rc=$?
    k=$(grep -m1 -o "key=[^ ]*" /tmp/seed_check_$n.log | head -1)
    if [ $rc -eq 1 ] && grep -q "^VIOLATION property=$p" /tmp/seed_check_$n.log; then verdict="$verdict $p:DETECTED"; key="$key $k";
    elif [ $rc -eq 0 ]; then verdict="$verdict $p:missed";
    else verdict="$verdict $p:exit$rc"; fi
  done
  git -C /repo checkout -- .
  echo "| $n | $prop | $suite | $verdict | $key |" >> $tmp
  echo "$n: $verdict"
done
if [ $# -eq 0 ]; then mv $tmp $out; cat $out; else cat $tmp; rm -f $tmp; fi
