//! Shared pieces of the dasp explorers that depend on the dasp crates.

pub mod probe;
