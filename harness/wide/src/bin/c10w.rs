//! C10 — sample<->frame slice views for every N in 1..=32, every length
//! L in 0..=3N+2, all 14 sample formats, shared / mutable / boxed; in-place
//! slice operations for every pair of lengths. Width-generic, built at
//! opt-level 0 (448 instantiations doing trivial work each).

use common::alloc::{self, Counting};
use common::{catch, guard, json, Ctx};
use dasp_frame::Frame;
use dasp_sample::{Sample, I24, I48, U24, U48};
use dasp_slice::{
    FromFrameSlice, FromFrameSliceMut, FromSampleSlice, FromSampleSliceMut, ToBoxedFrameSlice, ToBoxedSampleSlice, ToFrameSlice, ToFrameSliceMut, ToSampleSlice,
    ToSampleSliceMut,
};
use std::fmt::Debug;

#[global_allocator]
static A: Counting = Counting;

use wide::Mk;

type Bad = Option<(String, String)>;
fn bad(key: &str, msg: String) -> Bad {
    Some((key.to_string(), msg))
}

/// All view checks for one (S, N, L). Returns the first disagreement.
fn view_case<S, const N: usize>(l: usize) -> Bad
where
    S: Mk,
    [S; N]: Frame<Sample = S>,
    for<'a> &'a [S]: ToFrameSlice<'a, [S; N]> + FromFrameSlice<'a, [S; N]>,
    for<'a> &'a mut [S]: ToFrameSliceMut<'a, [S; N]> + FromFrameSliceMut<'a, [S; N]>,
    for<'a> &'a [[S; N]]: ToSampleSlice<'a, S> + FromSampleSlice<'a, S>,
    for<'a> &'a mut [[S; N]]: ToSampleSliceMut<'a, S> + FromSampleSliceMut<'a, S>,
    Box<[S]>: ToBoxedFrameSlice<[S; N]>,
    Box<[[S; N]]>: ToBoxedSampleSlice<S>,
{
    let tag = format!("{}x{N} L={l}", S::NAME);
    let div = l % N == 0;
    let v: Vec<S> = (0..l).map(S::mk).collect();
    // ---- shared
    {
        let r: Option<&[[S; N]]> = dasp_slice::to_frame_slice(&v[..]);
        let r2: Option<&[[S; N]]> = dasp_slice::from_sample_slice(&v[..]);
        if r.is_some() != div || r2.is_some() != div {
            return bad("view.shared.total", format!("{tag}: to_frame_slice is_some={} from_sample_slice is_some={}, N divides L = {div}", r.is_some(), r2.is_some()));
        }
        for (which, r) in [("to_frame_slice", r), ("from_sample_slice", r2)] {
            if let Some(fr) = r {
                if fr.len() != l / N {
                    return bad("view.shared.len", format!("{tag}: {which} gave {} frames, expected {}", fr.len(), l / N));
                }
                if fr.as_ptr() as usize != v.as_ptr() as usize {
                    return bad("view.shared.ptr", format!("{tag}: {which} does not view the same memory"));
                }
                for (i, f) in fr.iter().enumerate() {
                    for c in 0..N {
                        if f[c] != S::mk(i * N + c) {
                            return bad("view.shared.content", format!("{tag}: {which} frame {i} channel {c} = {:?}, expected sample {} = {:?}", f[c], i * N + c, S::mk(i * N + c)));
                        }
                    }
                }
                // inverse
                let back: &[S] = dasp_slice::to_sample_slice(fr);
                let back2: &[S] = dasp_slice::from_frame_slice(fr);
                for (w2, b) in [("to_sample_slice", back), ("from_frame_slice", back2)] {
                    if b.len() != l || b.as_ptr() != v.as_ptr() || b != &v[..] {
                        return bad("view.shared.inverse", format!("{tag}: {w2} of the frame view has len {} (expected {l}), same memory = {}", b.len(), b.as_ptr() == v.as_ptr()));
                    }
                }
            }
        }
    }
    // ---- mutable: write through the frame view, read through the samples
    {
        let mut m = v.clone();
        let base = m.as_ptr() as usize;
        let r: Option<&mut [[S; N]]> = dasp_slice::to_frame_slice_mut(&mut m[..]);
        if r.is_some() != div {
            return bad("view.mut.total", format!("{tag}: to_frame_slice_mut is_some={}, N divides L = {div}", r.is_some()));
        }
        if let Some(fr) = r {
            if fr.len() != l / N || fr.as_ptr() as usize != base {
                return bad("view.mut.len", format!("{tag}: to_frame_slice_mut gave {} frames (expected {}), same memory = {}", fr.len(), l / N, fr.as_ptr() as usize == base));
            }
            for (i, f) in fr.iter_mut().enumerate() {
                for c in 0..N {
                    if f[c] != S::mk(i * N + c) {
                        return bad("view.mut.content", format!("{tag}: mutable frame {i} channel {c} = {:?}, expected {:?}", f[c], S::mk(i * N + c)));
                    }
                    f[c] = S::mk(100 + i * N + c);
                }
            }
            // inverse, still mutable: write sample k back to mk(k) through it for odd k
            let back: &mut [S] = dasp_slice::to_sample_slice_mut(fr);
            if back.len() != l || back.as_ptr() as usize != base {
                return bad("view.mut.inverse", format!("{tag}: to_sample_slice_mut of the frame view has len {} (expected {l}), same memory = {}", back.len(), back.as_ptr() as usize == base));
            }
            for k in (1..l).step_by(2) {
                back[k] = S::mk(k);
            }
            for k in 0..l {
                let exp = if k % 2 == 1 { S::mk(k) } else { S::mk(100 + k) };
                if m[k] != exp {
                    return bad("view.mut.writethrough", format!("{tag}: after writing through the views sample {k} = {:?}, expected {:?}", m[k], exp));
                }
            }
        }
        let mut m = v.clone();
        let r: Option<&mut [[S; N]]> = dasp_slice::from_sample_slice_mut(&mut m[..]);
        if r.is_some() != div || r.map(|f| f.len()).unwrap_or(l / N) != l / N {
            return bad("view.mut.total", format!("{tag}: from_sample_slice_mut disagrees with N | L = {div}"));
        }
        if div {
            let mut frames: Vec<[S; N]> = (0..l / N).map(|i| core::array::from_fn(|c| S::mk(i * N + c))).collect();
            let fp = frames.as_ptr() as usize;
            let s: &mut [S] = dasp_slice::from_frame_slice_mut(&mut frames[..]);
            if s.len() != l || s.as_ptr() as usize != fp || s.iter().enumerate().any(|(k, x)| *x != S::mk(k)) {
                return bad("view.mut.inverse", format!("{tag}: from_frame_slice_mut gave len {} (expected {l})", s.len()));
            }
        }
    }
    // ---- boxed, under the counting allocator
    {
        let before = alloc::snapshot();
        let b: Box<[S]> = v.clone().into_boxed_slice();
        let ptr = b.as_ptr() as usize;
        let held = alloc::snapshot();
        let r: Option<Box<[[S; N]]>> = dasp_slice::to_boxed_frame_slice(b);
        let after = alloc::snapshot();
        if r.is_some() != div {
            return bad("view.boxed.total", format!("{tag}: to_boxed_frame_slice is_some={}, N divides L = {div}", r.is_some()));
        }
        match r {
            None => {
                if after.live != before.live {
                    return bad(
                        "view.boxed.fail_release",
                        format!("{tag}: failed boxed conversion returned None but {} bytes of the box stay allocated", after.live - before.live),
                    );
                }
            }
            Some(fr) => {
                if after.events() != held.events() {
                    return bad("view.boxed.realloc", format!("{tag}: successful to_boxed_frame_slice caused {} allocator events", after.events() - held.events()));
                }
                if fr.len() != l / N || (l > 0 && fr.as_ptr() as usize != ptr) {
                    return bad("view.boxed.reuse", format!("{tag}: boxed frame slice has {} frames (expected {}), same allocation = {}", fr.len(), l / N, fr.as_ptr() as usize == ptr));
                }
                for (i, f) in fr.iter().enumerate() {
                    for c in 0..N {
                        if f[c] != S::mk(i * N + c) {
                            return bad("view.boxed.content", format!("{tag}: boxed frame {i} channel {c} = {:?}", f[c]));
                        }
                    }
                }
                let mid = alloc::snapshot();
                let back: Box<[S]> = dasp_slice::to_boxed_sample_slice(fr);
                let after2 = alloc::snapshot();
                if after2.events() != mid.events() || back.len() != l || (l > 0 && back.as_ptr() as usize != ptr) || back[..] != v[..] {
                    return bad("view.boxed.inverse", format!("{tag}: to_boxed_sample_slice: {} allocator events, len {} (expected {l}), same allocation = {}", after2.events() - mid.events(), back.len(), back.as_ptr() as usize == ptr));
                }
                drop(back);
                let end = alloc::snapshot();
                if end.live != before.live {
                    return bad("view.boxed.drop", format!("{tag}: after dropping the round-tripped box {} bytes stay allocated", end.live - before.live));
                }
            }
        }
    }
    None
}

type CaseFn = fn(usize) -> Bad;

macro_rules! table_n {
    ($v:ident, $S:ty; $($N:literal)*) => { $( $v.push((<$S as Mk>::NAME, $N as usize, view_case::<$S, $N> as CaseFn)); )* };
}
macro_rules! table {
    ($v:ident; $($S:ty)*) => { $( table_n!($v, $S; 1 2 3 4 5 6 7 8 9 10 11 12 13 14 15 16 17 18 19 20 21 22 23 24 25 26 27 28 29 30 31 32); )* };
}

fn build_table() -> Vec<(&'static str, usize, CaseFn)> {
    let mut v: Vec<(&'static str, usize, CaseFn)> = Vec::new();
    table!(v; i8 u8 i16 u16 I24 U24 i32 u32 I48 U48 i64 u64 f32 f64);
    v
}

// ------------------------------------------------------------ in-place ops
fn inplace_case<FA, FB, FG>(name: &str, la: usize, lb: usize, mka: fn(usize) -> FA, mkb: fn(usize) -> FB, gain: FG) -> Bad
where
    FA: Frame + PartialEq + Debug,
    FB: Frame<Sample = <FA::Sample as Sample>::Signed, NumChannels = FA::NumChannels> + PartialEq + Debug,
    FG: Frame<Sample = <FB::Sample as Sample>::Float, NumChannels = FB::NumChannels>,
    FG::Sample: dasp_sample::FloatSample,
{
    if let Some(x) = inplace_case_with::<FA, FB, FG>(name, la, lb, mka, mkb, gain, false) {
        return Some(x);
    }
    // the same with a silent second slice (a "nothing to add" shortcut must still refuse a length mismatch)
    inplace_case_with::<FA, FB, FG>(name, la, lb, mka, mkb, gain, true)
}

fn inplace_case_with<FA, FB, FG>(name: &str, la: usize, lb: usize, mka: fn(usize) -> FA, mkb: fn(usize) -> FB, gain: FG, silent_b: bool) -> Bad
where
    FA: Frame + PartialEq + Debug,
    FB: Frame<Sample = <FA::Sample as Sample>::Signed, NumChannels = FA::NumChannels> + PartialEq + Debug,
    FG: Frame<Sample = <FB::Sample as Sample>::Float, NumChannels = FB::NumChannels>,
    FG::Sample: dasp_sample::FloatSample,
{
    let a0: Vec<FA> = (0..la).map(mka).collect();
    let a1: Vec<FA> = (0..lb).map(|i| if silent_b { FA::EQUILIBRIUM } else { mka(i + 40) }).collect();
    let b: Vec<FB> = (0..lb).map(|i| if silent_b { FB::EQUILIBRIUM } else { mkb(i) }).collect();
    let tag = format!("{name} la={la} lb={lb}{}", if silent_b { " (second slice silent)" } else { "" });
    // single-slice ops (la only)
    if lb == 0 {
        let mut a = a0.clone();
        dasp_slice::equilibrium(&mut a);
        if a.iter().any(|f| *f != FA::EQUILIBRIUM) || a.len() != la {
            return bad("inplace.equilibrium", format!("{tag}: equilibrium() left {a:?}"));
        }
        let mut a = a0.clone();
        let mut order = Vec::new();
        dasp_slice::map_in_place(&mut a, |f| {
            order.push(f);
            f.scale_amp(0.5.to_sample())
        });
        let exp: Vec<FA> = a0.iter().map(|f| f.scale_amp(0.5.to_sample())).collect();
        if a != exp || order != a0 {
            return bad("inplace.map", format!("{tag}: map_in_place gave {a:?}, expected {exp:?}"));
        }
    }
    // two-slice ops
    let eq = la == lb;
    // write (FA, FA)
    {
        let mut a = a0.clone();
        let r = catch(|| dasp_slice::write(&mut a, &a1));
        if eq {
            if r.is_err() || a != a1 {
                return bad("inplace.write", format!("{tag}: write gave {a:?} ({r:?}), expected {a1:?}"));
            }
        } else if r.is_ok() || a != a0 {
            return bad("inplace.mismatch", format!("{tag}: write with different lengths: panicked={} destination modified={}", r.is_err(), a != a0));
        }
    }
    // zip_map_in_place
    {
        let mut a = a0.clone();
        let mut calls = 0;
        let r = catch(|| {
            dasp_slice::zip_map_in_place(&mut a, &b, |x, y| {
                calls += 1;
                x.add_amp(y)
            })
        });
        let exp: Vec<FA> = a0.iter().zip(b.iter()).map(|(x, y)| x.add_amp(*y)).collect();
        if eq {
            if r.is_err() || a != exp || calls != la {
                return bad("inplace.zip_map", format!("{tag}: zip_map_in_place gave {a:?} after {calls} calls, expected {exp:?}"));
            }
        } else if r.is_ok() || a != a0 || calls != 0 {
            return bad("inplace.mismatch", format!("{tag}: zip_map_in_place with different lengths: panicked={} destination modified={} closure calls={calls}", r.is_err(), a != a0));
        }
    }
    // add_in_place
    {
        let mut a = a0.clone();
        let r = catch(|| dasp_slice::add_in_place(&mut a, &b));
        let exp: Vec<FA> = a0.iter().zip(b.iter()).map(|(x, y)| x.add_amp(*y)).collect();
        if eq {
            if r.is_err() || a != exp {
                return bad("inplace.add", format!("{tag}: add_in_place gave {a:?}, expected {exp:?}"));
            }
        } else if r.is_ok() || a != a0 {
            return bad("inplace.mismatch", format!("{tag}: add_in_place with different lengths: panicked={} destination modified={}", r.is_err(), a != a0));
        }
    }
    // add_in_place_with_amp_per_channel: the given gain, plus all-zero, all-one and single-channel gain frames
    {
        let mut gains: Vec<FG> = vec![gain, FG::EQUILIBRIUM];
        gains.push(FG::from_fn(|_| <FG::Sample as dasp_sample::FloatSample>::IDENTITY));
        gains.push(FG::from_fn(|c| if c == 0 { <FG::Sample as dasp_sample::FloatSample>::IDENTITY } else { <FG::Sample as Sample>::EQUILIBRIUM }));
        for g in gains {
            let mut a = a0.clone();
            let r = catch(|| dasp_slice::add_in_place_with_amp_per_channel(&mut a, &b, g));
            let exp: Vec<FA> = a0.iter().zip(b.iter()).map(|(x, y)| x.add_amp(y.mul_amp(g))).collect();
            if eq {
                if r.is_err() || a != exp {
                    return bad("inplace.add_amp", format!("{tag}: add_in_place_with_amp_per_channel gave {a:?}, expected {exp:?}"));
                }
            } else if r.is_ok() || a != a0 {
                return bad("inplace.mismatch", format!("{tag}: add_in_place_with_amp_per_channel with different lengths: panicked={} destination modified={}", r.is_err(), a != a0));
            }
        }
    }
    None
}

// ------------------------------------------------ in-place ops against independent arithmetic
/// Every integer sample format as 2-channel frames: add_in_place and add_in_place_with_amp_per_channel
/// over every pair (destination value, added amplitude) from two structured sets, compared with
/// independent arithmetic (add in the Signed companion, scale in its Float companion with correctly
/// rounded conversions; common::refmodel) instead of the Frame operation itself. Pairs whose
/// mathematical result leaves the format are outside the law's domain and are not formed.
const ABS_FORMATS: [&str; 12] = ["i8", "u8", "i16", "u16", "I24", "U24", "i32", "u32", "I48", "U48", "i64", "u64"];
fn abs_inplace_case(fmt_ix: usize) -> Bad {
    use common::refmodel::{amp, from_amp, in_range, sample_add, sample_mul, Fmt};
    macro_rules! run {
        ($S:ty, $SG:ty, $FL:ty, $fmt:expr, $mk:expr, $raw:expr, $mkg:expr) => {{
            let fmt: Fmt = $fmt;
            let sg = fmt.signed_companion();
            let mk = $mk;
            let raw = $raw;
            let mkg = $mkg;
            let bits = fmt.bits();
            let h = 1i128 << (bits - 1);
            let hs = 1i128 << (sg.bits() - 1);
            // destination: signed amplitudes around 0, the byte / 16-bit carries and the extremes
            let dest: Vec<i128> = [0, 1, -1, 255, -255, 256, -256, 257, -257, 65_535, -65_537, 100_003, -100_003, h - 1, -h, h - 2, -h + 1, h / 2, -h / 2 - 1]
                .into_iter()
                .filter(|a: &i128| *a >= -h && *a < h)
                .collect();
            // added amplitude, in the Signed companion's units
            let add: Vec<i128> = [0, 1, -1, 3, -255, 257, -256, 768, -769, 65_537, -65_535, hs / 4 + 1, -hs / 4 - 1, hs / 2 + 1, -hs / 2 - 1, hs - 1, -hs]
                .into_iter()
                .filter(|a: &i128| *a >= -hs && *a < hs)
                .collect();
            for (g0, g1) in [(1.0f64, 1.0f64), (0.5, -1.0), (0.25, 0.0), (-0.5, 0.75), (2.0, 2.0), (-1.0, -1.0), (0.5, 0.5)] {
                let plain = g0 == 1.0 && g1 == 1.0;
                let mut a: Vec<[$S; 2]> = Vec::new();
                let mut b: Vec<[$SG; 2]> = Vec::new();
                let mut exp: Vec<[i128; 2]> = Vec::new();
                for &x in &dest {
                    for &y in &add {
                        // both channels carry the pair, channel 1 with the roles' signs flipped where representable
                        let (x1, y1) = (if -x < h && -x >= -h { -x } else { x }, if -y < hs && -y >= -hs { -y } else { y });
                        let e = |x: i128, y: i128, g: f64| -> Option<i128> {
                            let ys = if plain { Some(y) } else { sample_mul(sg, y, g) }?;
                            sample_add(fmt, from_amp(fmt, x), ys)
                        };
                        let fa: [$S; 2] = [mk(from_amp(fmt, x)), mk(from_amp(fmt, x1))];
                        let fb: [$SG; 2] = [mkg(y), mkg(y1)];
                        if let (Some(e0), Some(e1)) = (e(x, y, g0), e(x1, y1, g1)) {
                            a.push(fa);
                            b.push(fb);
                            exp.push([e0, e1]);
                        } else if !plain {
                            // the scaled amplitude or the sum leaves the format: outside the arithmetic
                            // law's domain, but the slice operation must still equal the element-wise
                            // frame operation, whatever that yields (saturation) or does (panic)
                            let gf: [$FL; 2] = [g0 as $FL, g1 as $FL];
                            if let Ok(r) = catch(|| fa.add_amp(fb.mul_amp(gf))) {
                                a.push(fa);
                                b.push(fb);
                                exp.push([raw(r[0]), raw(r[1])]);
                            }
                        }
                    }
                }
                let before = a.clone();
                let r = if plain { catch(|| dasp_slice::add_in_place(&mut a, &b)) } else { catch(|| dasp_slice::add_in_place_with_amp_per_channel(&mut a, &b, [g0 as $FL, g1 as $FL])) };
                let op = if plain { "add_in_place".to_string() } else { format!("add_in_place_with_amp_per_channel(gain [{g0}, {g1}])") };
                if let Err(p) = r {
                    return bad("inplace.abs", format!("[{};2] {op} over {} in-range pairs panicked: {p}", ABS_FORMATS[fmt_ix], exp.len()));
                }
                for i in 0..a.len() {
                    for c in 0..2 {
                        let got: i128 = raw(a[i][c]);
                        if got != exp[i][c] {
                            return bad(
                                "inplace.abs",
                                format!(
                                    "[{};2] {op}: destination amplitude {} plus added amplitude {} (Signed companion units) gave amplitude {}, independent arithmetic gives {}",
                                    ABS_FORMATS[fmt_ix],
                                    amp(fmt, raw(before[i][c])),
                                    b[i][c].to_sample::<f64>() * hs as f64,
                                    amp(fmt, got),
                                    amp(fmt, exp[i][c])
                                ),
                            );
                        }
                    }
                }
            }
            None
        }};
    }
    match fmt_ix {
        0 => run!(i8, i8, f32, Fmt::I8, |v: i128| v as i8, |s: i8| s as i128, |v: i128| v as i8),
        1 => run!(u8, i8, f32, Fmt::U8, |v: i128| v as u8, |s: u8| s as i128, |v: i128| v as i8),
        2 => run!(i16, i16, f32, Fmt::I16, |v: i128| v as i16, |s: i16| s as i128, |v: i128| v as i16),
        3 => run!(u16, i16, f32, Fmt::U16, |v: i128| v as u16, |s: u16| s as i128, |v: i128| v as i16),
        4 => run!(I24, I24, f32, Fmt::I24, |v: i128| I24::new(v as i32).unwrap(), |s: I24| s.inner() as i128, |v: i128| I24::new(v as i32).unwrap()),
        5 => run!(U24, i32, f32, Fmt::U24, |v: i128| U24::new(v as i32).unwrap(), |s: U24| s.inner() as i128, |v: i128| v as i32),
        6 => run!(i32, i32, f32, Fmt::I32, |v: i128| v as i32, |s: i32| s as i128, |v: i128| v as i32),
        7 => run!(u32, i32, f32, Fmt::U32, |v: i128| v as u32, |s: u32| s as i128, |v: i128| v as i32),
        8 => run!(I48, I48, f64, Fmt::I48, |v: i128| I48::new(v as i64).unwrap(), |s: I48| s.inner() as i128, |v: i128| I48::new(v as i64).unwrap()),
        9 => run!(U48, i64, f64, Fmt::U48, |v: i128| U48::new(v as i64).unwrap(), |s: U48| s.inner() as i128, |v: i128| v as i64),
        10 => run!(i64, i64, f64, Fmt::I64, |v: i128| v as i64, |s: i64| s as i128, |v: i128| v as i64),
        _ => run!(u64, i64, f64, Fmt::U64, |v: i128| v as u64, |s: u64| s as i128, |v: i128| v as i64),
    }
}

/// The same for float frames, against native float arithmetic a + b * g (floats may exceed [-1, 1];
/// values chosen around rounding boundaries so that "add twice" or "scale after adding" differ).
fn float_inplace_case(wide: bool) -> Bad {
    macro_rules! run {
        ($T:ty, $name:expr) => {{
            let tiny = <$T>::EPSILON / 2.0;
            let dest: Vec<$T> = vec![0.0, 1.0, -1.0, 0.5, 1.0e-3, 1.0 + <$T>::EPSILON, 0.75, -0.25, 3.5];
            let add: Vec<$T> = vec![0.0, tiny, tiny / 2.0, 3.0 * tiny / 2.0, -tiny, 0.75, -0.75, 1.0, 0.3, 1.0e-3, 2.5];
            for (g0, g1) in [(1.0, 1.0), (0.5, -1.0), (0.25, 0.0), (-0.5, 0.75), (2.0, 2.0), (-1.0, -1.0), (0.5, 0.5), (3.0, 3.0)] {
                let (g0, g1) = (g0 as $T, g1 as $T);
                let mut a: Vec<[$T; 2]> = Vec::new();
                let mut b: Vec<[$T; 2]> = Vec::new();
                for &x in &dest {
                    for &y in &add {
                        a.push([x, -x]);
                        b.push([y, y]);
                    }
                }
                let before = a.clone();
                if let Err(p) = catch(|| dasp_slice::add_in_place_with_amp_per_channel(&mut a, &b, [g0, g1])) {
                    return bad("inplace.abs", format!("[{};2] add_in_place_with_amp_per_channel(gain [{g0}, {g1}]) panicked: {p}", $name));
                }
                for i in 0..a.len() {
                    let exp = [before[i][0] + b[i][0] * g0, before[i][1] + b[i][1] * g1];
                    if a[i][0].to_bits() != exp[0].to_bits() || a[i][1].to_bits() != exp[1].to_bits() {
                        return bad("inplace.abs", format!("[{};2] add_in_place_with_amp_per_channel(gain [{g0}, {g1}]): {:?} plus {:?} gave {:?}, native float arithmetic a + b * g gives {exp:?}", $name, before[i], b[i], a[i]));
                    }
                }
                let mut a2 = before.clone();
                if catch(|| dasp_slice::add_in_place(&mut a2, &b)).is_err() || (0..a2.len()).any(|i| a2[i][0].to_bits() != (before[i][0] + b[i][0]).to_bits() || a2[i][1].to_bits() != (before[i][1] + b[i][1]).to_bits()) {
                    return bad("inplace.abs", format!("[{};2] add_in_place differs from native float addition", $name));
                }
            }
            None
        }};
    }
    if wide {
        run!(f64, "f64")
    } else {
        run!(f32, "f32")
    }
}

/// zip_map_in_place over two frame types with DIFFERENT channel counts (stereo against a mono
/// control slice, as frames `[S; 1]` and as bare samples): the length that must agree is the number
/// of frames, not the number of samples.
fn mixed_width_case(la: usize, lb: usize) -> Bad {
    let a0: Vec<[f32; 2]> = (0..la).map(|i| [i as f32 * 0.125 - 0.25, 0.5 - i as f32 * 0.0625]).collect();
    let b1: Vec<[f32; 1]> = (0..lb).map(|i| [0.25 * i as f32 + 0.125]).collect();
    let b0: Vec<f32> = b1.iter().map(|f| f[0]).collect();
    let i0: Vec<[i16; 3]> = (0..la).map(|i| [i as i16 * 100, -50, 7 - i as i16]).collect();
    let j1: Vec<[i16; 1]> = (0..lb).map(|i| [i as i16 * 3 - 4]).collect();
    let tag = format!("zip_map_in_place over {la} wide frames and {lb} mono frames");
    macro_rules! one {
        ($a0:expr, $b:expr, $f:expr, $what:expr) => {{
            let mut a = $a0.clone();
            let mut calls = 0usize;
            let r = catch(|| {
                dasp_slice::zip_map_in_place(&mut a, &$b[..], |x, y| {
                    calls += 1;
                    $f(x, y)
                })
            });
            if la == lb {
                let exp: Vec<_> = $a0.iter().zip($b.iter()).map(|(x, y)| $f(*x, *y)).collect();
                if r.is_err() || a != exp || calls != la {
                    return bad("inplace.zip_map", format!("{tag} ({}): gave {a:?} after {calls} closure calls (panicked: {}), expected {exp:?}", $what, r.is_err()));
                }
            } else if r.is_ok() || a != $a0 || calls != 0 {
                return bad("inplace.mismatch", format!("{tag} ({}): different frame counts: panicked={} destination modified={} closure calls={calls}", $what, r.is_err(), a != $a0));
            }
        }};
    }
    one!(a0, b1, |x: [f32; 2], y: [f32; 1]| [x[0] * y[0], x[1] + y[0]], "[f32;2] with [f32;1]");
    one!(a0, b0, |x: [f32; 2], y: f32| [x[0] * y, x[1] + y], "[f32;2] with bare f32");
    one!(i0, j1, |x: [i16; 3], y: [i16; 1]| [x[0].wrapping_add(y[0]), x[1], x[2].wrapping_sub(y[0])], "[i16;3] with [i16;1]");
    None
}

fn inplace_dispatch(name: &str, la: usize, lb: usize) -> Bad {
    match name {
        "[f32;2]" => inplace_case::<[f32; 2], [f32; 2], [f32; 2]>(name, la, lb, |i| [i as f32 * 0.125 - 0.5, 0.25 - i as f32 * 0.0625], |i| [0.0625 * i as f32, -0.125], [0.5, -1.0]),
        "[i16;1]" => inplace_case::<[i16; 1], [i16; 1], [f32; 1]>(name, la, lb, |i| [i as i16 * 100 - 3000], |i| [i as i16 * 512 - 1024], [0.5]),
        "[u8;3]" => inplace_case::<[u8; 3], [i8; 3], [f32; 3]>(name, la, lb, |i| [100 + i as u8, 128, 140 - i as u8], |i| [i as i8 * 4 - 8, 8, -16], [0.5, 1.0, -0.25]),
        "[I24;2]" => inplace_case::<[I24; 2], [I24; 2], [f32; 2]>(name, la, lb, |i| [I24::new(i as i32 * 4096).unwrap(), I24::new(-4096).unwrap()], |i| [I24::new(1024 * i as i32).unwrap(), I24::new(2048).unwrap()], [0.5, 0.25]),
        "[u16;4]" => inplace_case::<[u16; 4], [i16; 4], [f32; 4]>(name, la, lb, |i| [32768, 32768 + 256 * i as u16, 30000, 40000], |i| [256, -256, i as i16 * 512, 0], [1.0, 0.5, 0.25, 0.0]),
        "f64" => inplace_case::<f64, f64, f64>(name, la, lb, |i| i as f64 * 0.125 - 0.25, |i| 0.0625 * i as f64, 0.5),
        _ => bad("inplace", format!("unknown frame type {name}")),
    }
}
const INPLACE_TYPES: [&str; 6] = ["[f32;2]", "[i16;1]", "[u8;3]", "[I24;2]", "[u16;4]", "f64"];

fn main() {
    let ctx = Ctx::new("C10", "views");
    if let Err(e) = alloc::self_test() {
        ctx.machinery_failure(&format!("counting allocator self-test: {e}"));
    }
    let table = build_table();
    if let Some(v) = ctx.replay_case() {
        let _guard_scope = guard::scoped(&v.to_string());
        let r = if v["sys"] == "inplace_mixed_width" {
            mixed_width_case(v["la"].as_u64().unwrap_or(0) as usize, v["lb"].as_u64().unwrap_or(0) as usize)
        } else if v["sys"] == "inplace_float" {
            float_inplace_case(v["wide"].as_bool().unwrap_or(false))
        } else if v["sys"] == "inplace_abs" {
            abs_inplace_case(v["fmt_ix"].as_u64().unwrap_or(0) as usize)
        } else if v["sys"] == "inplace" {
            inplace_dispatch(v["frame"].as_str().unwrap_or(""), v["la"].as_u64().unwrap_or(0) as usize, v["lb"].as_u64().unwrap_or(0) as usize)
        } else {
            let fmt = v["fmt"].as_str().unwrap_or("");
            let n = v["n"].as_u64().unwrap_or(0) as usize;
            let l = v["l"].as_u64().unwrap_or(0) as usize;
            match table.iter().find(|(f, nn, _)| *f == fmt && *nn == n) {
                Some((_, _, f)) => f(l),
                None => bad("view", format!("no instantiation for {fmt} x {n}")),
            }
        };
        ctx.finish_replay(r.map(|(k, m)| format!("{k}: {m}")));
    }
    ctx.rule("views: every (sample format of 14, N in 1..=32, L in 0..=3N+2 and 100N, 100N+1, 65535, 65536, 65537): to_frame_slice/from_sample_slice(+_mut) is Some iff N|L, L/N frames, same data pointer, frame i channel c == sample i*N+c on position-coded data, mutable views write through, to_sample_slice/from_frame_slice(+_mut) invert (pointer, length, contents); boxed under a counting allocator: success => 0 allocator events and the same allocation, failure => None and live heap bytes back to the value before the box existed, dropping the round-tripped box frees it; non-trivial = L>0, distinct by (format, N, L)");
    ctx.rule("in-place ops: equilibrium/map_in_place/zip_map_in_place/write/add_in_place/add_in_place_with_amp_per_channel for every length pair (la, lb) in 0..=5^2 over 6 frame types: equal lengths => element-wise real frame op, different => panic with the destination bit-identical and the closure never called");
    let mut evals = 0u64;
    for (fmt, n, f) in &table {
        // every L up to 3N+2, plus two long slices (scale probes)
        // every L up to 3N+2, two long slices, and the 16-bit boundary (a length kept in 16 bits would wrap)
        for l in (0..=3 * n + 2).chain([100 * n, 100 * n + 1, 65535, 65536, 65537]) {
            let case = json!({"sys": "view", "fmt": fmt, "n": n, "l": l});
            let _guard_scope = guard::scoped(&case.to_string());
            evals += 1;
            let f = *f;
            match catch(|| f(l)) {
                Ok(None) => {
                    if l > 0 {
                        ctx.observe(common::fnv_str(&format!("{fmt}{n}/{l}")));
                    }
                }
                Ok(Some((k, m))) => ctx.violation(&k, case, m, Some(&|| f(l).map(|x| x.1))),
                Err(p) => ctx.violation("view.panic", case, format!("{fmt}x{n} L={l}: panicked: {p}"), None),
            }
        }
    }
    ctx.set("view_instantiations", json!(table.len()));
    let maxl = 5;
    for name in INPLACE_TYPES {
        for la in 0..=maxl {
            for lb in 0..=maxl {
                let case = json!({"sys": "inplace", "frame": name, "la": la, "lb": lb});
                let _guard_scope = guard::scoped(&case.to_string());
                evals += 1;
                match catch(|| inplace_dispatch(name, la, lb)) {
                    Ok(None) => ctx.observe(common::fnv_str(&format!("ip{name}{la}/{lb}"))),
                    Ok(Some((k, m))) => ctx.violation(&k, case, m, Some(&|| inplace_dispatch(name, la, lb).map(|x| x.1))),
                    Err(p) => ctx.violation("inplace.panic", case, format!("{name} la={la} lb={lb}: unexpected panic: {p}"), None),
                }
            }
        }
    }
    for fmt_ix in 0..ABS_FORMATS.len() {
        let case = json!({"sys": "inplace_abs", "fmt_ix": fmt_ix, "format": ABS_FORMATS[fmt_ix]});
        let _guard_scope = guard::scoped(&case.to_string());
        evals += 1;
        match catch(|| abs_inplace_case(fmt_ix)) {
            Ok(None) => ctx.observe(common::fnv_str(&format!("ipabs{fmt_ix}"))),
            Ok(Some((k, m))) => ctx.violation(&k, case, m, Some(&|| abs_inplace_case(fmt_ix).map(|x| x.1))),
            Err(p) => ctx.violation("inplace.panic", case, format!("[{};2] absolute in-place check: unexpected panic: {p}", ABS_FORMATS[fmt_ix]), None),
        }
    }
    for la in 0..=6usize {
        for lb in 0..=12usize {
            let case = json!({"sys": "inplace_mixed_width", "la": la, "lb": lb});
            let _guard_scope = guard::scoped(&case.to_string());
            evals += 1;
            match catch(|| mixed_width_case(la, lb)) {
                Ok(None) => ctx.observe(common::fnv_str(&format!("ipmw{la}/{lb}"))),
                Ok(Some((k, m))) => ctx.violation(&k, case, m, Some(&|| mixed_width_case(la, lb).map(|x| x.1))),
                Err(p) => ctx.violation("inplace.panic", case, format!("mixed-width zip_map_in_place la={la} lb={lb}: unexpected panic: {p}"), None),
            }
        }
    }
    ctx.rule("zip_map_in_place over frame types of different channel counts ([f32;2] with [f32;1] and with bare f32, [i16;3] with [i16;1]) for every (la, lb) in 0..=6 x 0..=12: equal frame counts => element-wise closure result, closure called once per frame; different frame counts (equal sample counts included) => panic, destination untouched, closure never called");
    for wide in [false, true] {
        let case = json!({"sys": "inplace_float", "wide": wide});
        let _guard_scope = guard::scoped(&case.to_string());
        evals += 1;
        match catch(|| float_inplace_case(wide)) {
            Ok(None) => ctx.observe(common::fnv_str(&format!("ipfloat{wide}"))),
            Ok(Some((k, m))) => ctx.violation(&k, case, m, Some(&|| float_inplace_case(wide).map(|x| x.1))),
            Err(p) => ctx.violation("inplace.panic", case, format!("float in-place check: unexpected panic: {p}"), None),
        }
    }
    ctx.rule("in-place ops against independent arithmetic: all 12 integer formats as 2-channel frames, add_in_place and add_in_place_with_amp_per_channel (7 gain frames including all-2.0, all--1.0 and all-0.5) over every pair of a destination amplitude (0, +-1, the byte / 16-bit carries +-255..257, 65535, 100003, both extremes and their neighbours, half scale) and an added amplitude in the Signed companion's units (0, +-1, 3, -255, 257, -256, 768, -769, ...), result == add in the Signed companion of the value scaled in the Float companion with correctly rounded conversions (common::refmodel), pairs whose mathematical result leaves the format are compared with the element-wise frame operation itself (saturation); f32 and f64 frames against native a + b * g over values around rounding boundaries");
    ctx.add_evals(evals);
    ctx.set("exhaustive", json!(true));
    ctx.set("exhaustive_scope", json!("N 1..=32 complete, 14 formats complete, L bounded by 3N+2; in-place length pairs bounded by 5"));
    ctx.sample(json!({"sys":"view","fmt":"I24","n":3,"l":7,"expected":"None for shared, mutable and boxed views; the boxed failure must free the 7-sample box"}));
    ctx.sample(json!({"sys":"view","fmt":"f32","n":2,"l":6,"expected":"3 frames viewing the same memory, frame i = [sample 2i, sample 2i+1]"}));
    ctx.sample(json!({"sys":"inplace","frame":"[u8;3]","la":2,"lb":3,"expected":"panic, destination unchanged"}));
    ctx.assume("the counting allocator sees every heap operation of this thread (self-tested at start-up)");
    ctx.finish();
}
