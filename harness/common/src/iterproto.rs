//! The std `Iterator` protocol on the iterators the crates export: whatever a type overrides
//! (`nth`, `size_hint`, `count`, `last`, and through them `skip` / `step_by`), it must agree
//! with what repeated `next()` yields. `mk` builds a fresh iterator over the same data each time;
//! `expected` is the full sequence it must yield (established by the caller's own oracle).

use std::fmt::Debug;

/// Returns a description of the first disagreement, if any. Every iterator is driven through a
/// bounded number of calls, so an iterator that never ends cannot hang the check.
pub fn check<I, T>(mk: &dyn Fn() -> I, expected: &[T], exact_size: bool) -> Option<String>
where
    I: Iterator<Item = T>,
    T: PartialEq + Debug + Clone,
{
    let n = expected.len();
    // advance k items with next(), then use each provided method once
    for k in 0..=n.min(6) {
        let adv = |it: &mut I| -> Option<String> {
            for j in 0..k {
                let g = it.next();
                if g.as_ref() != Some(&expected[j]) {
                    return Some(format!("next() #{j} = {g:?}, expected {:?}", expected[j]));
                }
            }
            None
        };
        // size_hint
        {
            let mut it = mk();
            if let Some(m) = adv(&mut it) {
                return Some(m);
            }
            let (lo, hi) = it.size_hint();
            let rem = n - k;
            if lo > rem || hi.map_or(false, |h| h < rem) || (exact_size && (lo != rem || hi != Some(rem))) {
                return Some(format!("after {k} items size_hint() = ({lo}, {hi:?}) but {rem} items remain"));
            }
        }
        // nth(j) for every j, and the item after it
        for j in 0..=(n - k + 1).min(8) {
            let mut it = mk();
            if let Some(m) = adv(&mut it) {
                return Some(m);
            }
            let g = it.nth(j);
            let e = expected.get(k + j);
            if g.as_ref() != e {
                return Some(format!("after {k} items nth({j}) = {g:?}, expected {e:?}"));
            }
            if e.is_some() {
                let g2 = it.next();
                let e2 = expected.get(k + j + 1);
                if g2.as_ref() != e2 {
                    return Some(format!("after {k} items and nth({j}), next() = {g2:?}, expected {e2:?}"));
                }
            }
        }
        // skip(j) / step_by(s), bounded
        for j in 0..=(n - k).min(4) {
            let mut it = mk();
            if let Some(m) = adv(&mut it) {
                return Some(m);
            }
            let got: Vec<T> = it.skip(j).take(n + 3).collect();
            if got[..] != expected[(k + j).min(n)..] {
                return Some(format!("after {k} items skip({j}) yielded {} items {got:?}, expected {:?}", got.len(), &expected[(k + j).min(n)..]));
            }
        }
        for s in 1..=3usize {
            let mut it = mk();
            if let Some(m) = adv(&mut it) {
                return Some(m);
            }
            let got: Vec<T> = it.step_by(s).take(n + 3).collect();
            let exp: Vec<T> = expected[k..].iter().step_by(s).cloned().collect();
            if got != exp {
                return Some(format!("after {k} items step_by({s}) yielded {got:?}, expected {exp:?}"));
            }
        }
        // count / last
        {
            let mut it = mk();
            if let Some(m) = adv(&mut it) {
                return Some(m);
            }
            // (count and last consume the iterator: an iterator that never ends is caught by the
            // bounded forms above before these run)
            let c = it.count();
            if c != n - k {
                return Some(format!("after {k} items count() = {c}, expected {}", n - k));
            }
            let mut it = mk();
            if let Some(m) = adv(&mut it) {
                return Some(m);
            }
            let l = it.last();
            let e = if n > k { expected.last() } else { None };
            if l.as_ref() != e {
                return Some(format!("after {k} items last() = {l:?}, expected {e:?}"));
            }
        }
    }
    None
}

/// Maps the items of `I` while forwarding every protocol method (`nth`, `size_hint`, `count`,
/// `last`) to `I` itself — unlike `Iterator::map`, whose provided methods go through `next()` only.
/// For iterators whose items cannot be compared directly (signals, borrowed chunks).
#[derive(Clone)]
pub struct Through<I, F>(pub I, pub F);
impl<I: Iterator, T, F: FnMut(I::Item) -> T> Iterator for Through<I, F> {
    type Item = T;
    fn next(&mut self) -> Option<T> {
        self.0.next().map(&mut self.1)
    }
    fn nth(&mut self, n: usize) -> Option<T> {
        self.0.nth(n).map(&mut self.1)
    }
    fn size_hint(&self) -> (usize, Option<usize>) {
        self.0.size_hint()
    }
    fn count(self) -> usize {
        self.0.count()
    }
    fn last(mut self) -> Option<T> {
        self.0.last().map(&mut self.1)
    }
}

/// A clone taken after any number of items continues exactly like the original (which is not
/// disturbed by it): for iterators that implement `Clone`.
pub fn check_clone<I, T>(mk: &dyn Fn() -> I, expected: &[T]) -> Option<String>
where
    I: Iterator<Item = T> + Clone,
    T: PartialEq + Debug + Clone,
{
    let n = expected.len();
    for k in 0..=n.min(10) {
        let mut it = mk();
        for _ in 0..k {
            it.next();
        }
        let mut c = it.clone();
        let mut c2 = mk();
        c2.clone_from(&it);
        for j in k..n + 2 {
            let e = expected.get(j);
            let got = [c.next(), c2.next(), it.next()];
            if got.iter().any(|g| g.as_ref() != e) {
                return Some(format!("after {k} items: clone() / clone_from() into a fresh iterator / the original yield {got:?} as item #{j}, expected {e:?}"));
            }
        }
    }
    None
}
