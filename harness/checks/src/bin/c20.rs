//! C20 — window functions, the Window iterator and the Windower chunk schedule.

use common::{catch, guard, json, Ctx, Value};
use dasp_frame::Frame;
use dasp_sample::Sample;
use dasp_signal::window::{Window, Windower};
use dasp_window::{Hann, Rectangle, Window as WindowFn};
use rayon::prelude::*;
use std::sync::atomic::{AtomicU64, Ordering::Relaxed};

const PI2: f64 = std::f64::consts::PI * 2.0;

fn hann_ref(p: f64) -> f64 {
    0.5 * (1.0 - (PI2 * p).cos())
}

// --------------------------------------------------------------- hann at a phase
fn hann_f32_case(bits: u32) -> Option<String> {
    let p = f32::from_bits(bits);
    let w: f32 = <Hann as WindowFn<f32>>::window(p);
    let r = hann_ref(p as f64);
    let eps = f32::EPSILON as f64;
    if !(w >= 0.0 && w <= 1.0) {
        return Some(format!("hann({p:e}) = {w:e} outside [0,1]"));
    }
    if (w as f64 - r).abs() > 4.0 * eps {
        return Some(format!("hann({p:e}) = {w:e}, expected 0.5*(1-cos(2 pi p)) = {r:e}"));
    }
    let q = 1.0f32 - p;
    let wq: f32 = <Hann as WindowFn<f32>>::window(q);
    // 1-p is rounded to f32 when p is tiny: allow the slope of the window times that rounding
    let slack = 8.0 * eps + std::f64::consts::PI * ((q as f64) - (1.0 - p as f64)).abs();
    if (w as f64 - wq as f64).abs() > slack {
        return Some(format!("hann({p:e}) = {w:e} but hann(1-p) = {wq:e}: not symmetric about 0.5"));
    }
    None
}

fn hann_f64_case(p: f64) -> Option<String> {
    let w: f64 = <Hann as WindowFn<f64>>::window(p);
    let r = hann_ref(p);
    if !(w >= 0.0 && w <= 1.0) {
        return Some(format!("hann({p:e}) = {w:e} outside [0,1]"));
    }
    if (w - r).abs() > 4.0 * f64::EPSILON {
        return Some(format!("hann({p:e}) = {w:e}, expected {r:e}"));
    }
    let wq: f64 = <Hann as WindowFn<f64>>::window(1.0 - p);
    if (w - wq).abs() > 8.0 * f64::EPSILON + std::f64::consts::PI * (((1.0 - p) - 1.0) + p).abs() {
        return Some(format!("hann({p:e}) = {w:e} but hann(1-p) = {wq:e}: not symmetric"));
    }
    None
}

fn special_points() -> Option<String> {
    let h = |p: f64| <Hann as WindowFn<f64>>::window(p);
    if (h(0.5) - 1.0).abs() > 1e-15 || h(0.0).abs() > 1e-15 || h(1.0).abs() > 1e-15 {
        return Some(format!("hann(0.5)={:e} hann(0)={:e} hann(1)={:e}; expected 1, 0, 0", h(0.5), h(0.0), h(1.0)));
    }
    let hf = |p: f32| <Hann as WindowFn<f32>>::window(p);
    if hf(0.5) != 1.0 || hf(0.0) != 0.0 || hf(1.0).abs() > 1e-7 {
        return Some(format!("f32: hann(0.5)={:e} hann(0)={:e} hann(1)={:e}", hf(0.5), hf(0.0), hf(1.0)));
    }
    None
}

fn rect_case(p: f64) -> Option<String> {
    let a: f64 = <Rectangle as WindowFn<f64>>::window(p);
    let b: f32 = <Rectangle as WindowFn<f32>>::window(p as f32);
    if a != 1.0 || b != 1.0 {
        return Some(format!("rectangle({p:e}) = {a:e} (f64) / {b:e} (f32), expected 1"));
    }
    None
}

// --------------------------------------------------------------- Window iterator
fn window_iter_case(kind: &str, n: usize) -> Option<String> {
    let tol = n as f64 * 8.0 * f64::EPSILON;
    let exp = |i: usize| if kind == "hann" { hann_ref(i as f64 / (n as f64 - 1.0)) } else { 1.0 };
    let vals64: Vec<f64> = if kind == "hann" {
        Window::<f64, Hann>::new(n).take(n).collect()
    } else {
        Window::<f64, Rectangle>::new(n).take(n).collect()
    };
    let vals32: Vec<[f32; 2]> = if kind == "hann" {
        Window::<[f32; 2], Hann>::new(n).take(n).collect()
    } else {
        Window::<[f32; 2], Rectangle>::new(n).take(n).collect()
    };
    let vals16: Vec<[i16; 2]> = if kind == "hann" {
        Window::<[i16; 2], Hann>::new(n).take(n).collect()
    } else {
        Window::<[i16; 2], Rectangle>::new(n).take(n).collect()
    };
    if vals64.len() != n {
        return Some(format!("{kind} window of {n}: iterator ended after {} values", vals64.len()));
    }
    for i in 0..n {
        let e = exp(i);
        // the phase is accumulated in floating point; slope of hann <= pi
        if (vals64[i] - e).abs() > tol * 4.0 {
            return Some(format!("{kind} window of {n}: value {i} = {:e}, expected window({i}/{}) = {e:e}", vals64[i], n - 1));
        }
        for c in 0..2 {
            if (vals32[i][c] as f64 - e).abs() > 2.0 * f32::EPSILON as f64 + tol * 4.0 {
                return Some(format!("{kind} window of {n} as [f32;2]: value {i} channel {c} = {:e}, expected {e:e}", vals32[i][c]));
            }
            let ei = ((e * 32768.0).trunc()).min(32767.0);
            // a window value of (almost) exactly 1.0 is outside the documented float->int domain [-1, 1)
            if e * 32768.0 < 32767.0 && (vals16[i][c] as f64 - ei).abs() > 1.0 {
                return Some(format!("{kind} window of {n} as [i16;2]: value {i} channel {c} = {}, expected {ei}", vals16[i][c]));
            }
        }
    }
    None
}

// --------------------------------------------------------------------- Windower
trait Content: Frame + PartialEq + std::fmt::Debug {
    const NAME: &'static str;
    fn mk(j: usize) -> Self;
    /// is `got` the frame `src` scaled by window value `w` (w in [0,1])?
    fn scaled_ok(src: Self, w: f64, got: Self, b: usize) -> bool;
}
impl Content for f64 {
    const NAME: &'static str = "f64";
    fn mk(j: usize) -> f64 {
        (j as f64 + 1.0) / 32.0
    }
    fn scaled_ok(src: f64, w: f64, got: f64, b: usize) -> bool {
        (got - src * w).abs() <= src.abs() * (b as f64 * 64.0 * f64::EPSILON)
    }
}
impl Content for [f32; 2] {
    const NAME: &'static str = "[f32;2]";
    fn mk(j: usize) -> [f32; 2] {
        [(j as f32 + 1.0) / 32.0, -(j as f32 + 1.0) / 64.0]
    }
    fn scaled_ok(src: Self, w: f64, got: Self, b: usize) -> bool {
        (0..2).all(|c| (got[c] as f64 - src[c] as f64 * w).abs() <= (src[c].abs() as f64) * (4.0 * f32::EPSILON as f64 + b as f64 * 64.0 * f64::EPSILON))
    }
}
impl Content for [i16; 2] {
    const NAME: &'static str = "[i16;2]";
    fn mk(j: usize) -> [i16; 2] {
        [((j % 30) as i16) * 1000 + 500 + (j / 30) as i16, -((j % 30) as i16) * 900 - 7 - (j / 30) as i16]
    }
    fn scaled_ok(src: Self, w: f64, got: Self, _b: usize) -> bool {
        (0..2).all(|c| (got[c] as f64 - (src[c] as f64 * w)).abs() <= 1.0 + 0.01)
    }
}

fn windower_case<F: Content>(kind: &str, l: usize, b: usize, h: usize) -> Option<(String, String)> {
    let frames: Vec<F> = (0..l).map(F::mk).collect();
    let expected_chunks = if l >= b { (l - b) / h + 1 } else { 0 };
    let tag = format!("{kind} {} L={l} bin={b} hop={h}", F::NAME);
    macro_rules! run {
        ($W:ty) => {{
            let mut wd: Windower<F, $W> = Windower::new(&frames[..], b, h);
            let mut k = 0usize;
            let mut all_chunks: Vec<Vec<F>> = Vec::new();
            loop {
                let remaining = expected_chunks.saturating_sub(k);
                let (lo, hi) = wd.size_hint();
                if lo > remaining || hi.map(|x| x < remaining).unwrap_or(false) {
                    return Some((
                        "windower.size_hint".to_string(),
                        format!("{tag}: before chunk {k} size_hint() = ({lo}, {hi:?}) but {remaining} chunks remain"),
                    ));
                }
                match wd.next() {
                    None => break,
                    Some(chunk) => {
                        if k >= expected_chunks {
                            return Some(("windower.count".to_string(), format!("{tag}: yields more than {expected_chunks} chunks")));
                        }
                        let got: Vec<F> = chunk.take(b).collect();
                        if got.len() != b {
                            return Some(("windower.chunk_len".to_string(), format!("{tag}: chunk {k} has {} frames", got.len())));
                        }
                        for i in 0..b {
                            let w = if kind == "hann" { hann_ref(i as f64 / (b as f64 - 1.0)) } else { 1.0 };
                            if !F::scaled_ok(frames[k * h + i], w, got[i], b) {
                                return Some((
                                    "windower.content".to_string(),
                                    format!("{tag}: chunk {k} frame {i} = {:?}, expected frame {} = {:?} scaled by {w:e}", got[i], k * h + i, frames[k * h + i]),
                                ));
                            }
                        }
                        all_chunks.push(got);
                        k += 1;
                        if k > l + 2 {
                            return Some(("windower.count".to_string(), format!("{tag}: does not terminate")));
                        }
                    }
                }
            }
            if k != expected_chunks {
                return Some(("windower.count".to_string(), format!("{tag}: yielded {k} chunks, expected floor((L-b)/h)+1 = {expected_chunks}")));
            }
            // the rest of the Iterator protocol (nth, skip, step_by, count, last, size_hint bounds after
            // every cursor position) must agree with the chunks next() has just yielded
            if l <= 40 {
                let mk = || common::iterproto::Through(Windower::<F, $W>::new(&frames[..], b, h), |c: dasp_signal::window::Windowed<_, $W>| c.take(b).collect::<Vec<F>>());
                if let Some(m) = common::iterproto::check(&mk, &all_chunks, false) {
                    return Some(("windower.iter".to_string(), format!("{tag}: {m}")));
                }
                if let Some(m) = common::iterproto::check_clone(&mk, &all_chunks) {
                    return Some(("windower.iter".to_string(), format!("{tag}: {m}")));
                }
            }
        }};
    }
    if kind == "hann" {
        run!(Hann)
    } else {
        run!(Rectangle)
    }
    None
}

fn windower_dispatch(kind: &str, fmt: &str, l: usize, b: usize, h: usize) -> Option<(String, String)> {
    match fmt {
        "f64" => windower_case::<f64>(kind, l, b, h),
        "[f32;2]" => windower_case::<[f32; 2]>(kind, l, b, h),
        "[i16;2]" => windower_case::<[i16; 2]>(kind, l, b, h),
        _ => Some(("windower".into(), format!("unknown format {fmt}"))),
    }
}

fn replay(v: &Value) -> Option<String> {
    match v["sys"].as_str().unwrap_or("") {
        "hann_f32" => hann_f32_case(v["bits"].as_u64().unwrap_or(0) as u32),
        "hann_f64" => hann_f64_case(f64::from_bits(v["bits"].as_u64().unwrap_or(0))),
        "special" => special_points(),
        "rect" => rect_case(f64::from_bits(v["bits"].as_u64().unwrap_or(0))),
        "window_iter" => window_iter_case(v["kind"].as_str().unwrap_or(""), v["n"].as_u64().unwrap_or(2) as usize),
        "windower" => windower_dispatch(
            v["kind"].as_str().unwrap_or(""),
            v["fmt"].as_str().unwrap_or(""),
            v["l"].as_u64().unwrap_or(0) as usize,
            v["b"].as_u64().unwrap_or(2) as usize,
            v["h"].as_u64().unwrap_or(1) as usize,
        )
        .map(|x| format!("{}: {}", x.0, x.1)),
        _ => Some("unknown case".into()),
    }
}

fn main() {
    let ctx = Ctx::new("C20", "release");
    if let Some(v) = ctx.replay_case() {
        let _guard_scope = guard::scoped(&v.to_string());
        ctx.finish_replay(catch(|| replay(&v)).unwrap_or_else(|p| Some(format!("panic: {p}"))));
    }
    let thorough = ctx.thorough();
    ctx.rule("hann: every f32 phase in [0,1] (thorough) / 2^21-point bit-pattern grid (quick), f64 grid of 2^20 (quick) / 2^24 (thorough) points plus 1-ulp neighbourhoods of 0, 1/4, 1/2, 3/4, 1: |w - 0.5(1-cos 2 pi p)| <= 4 eps, 0<=w<=1, symmetry, special points; rectangle == 1 on the same grids");
    ctx.rule("Window iterator: n = 2..=64 (quick) / 2..=1024 (thorough) and 100, 257, 1000, 4096, 65535, 65536, 65537, both windows, frames f64 / [f32;2] / [i16;2]: i-th value == window(i/(n-1)) within n*eps");
    ctx.rule("Windower: every (L in 0..=24 (thorough 0..=40), bin 2..=L+2, hop 1..=L+2) x {hann, rectangle} x {f64, [f32;2], [i16;2]}: chunk count == floor((L-b)/h)+1 if L>=b else 0, chunk k frame i == frames[k*h+i] scaled by window(i/(b-1)), size_hint().0 <= remaining <= size_hint().1 before every next(); non-trivial = at least one chunk, distinct by (window, format, L, b, h); scale probes: slices of 100, 257, 1000 and of 65535, 65536, 65537 frames with structured (bin, hop); for L <= 40 also nth / skip / step_by / count / last / size_hint after every cursor position against the chunks next() yields");

    // ---- hann / rectangle at every phase
    let one = 1.0f32.to_bits();
    let f32_patterns: Vec<u32> = if thorough {
        (0..=one).collect()
    } else {
        // every exponent x 2^12 top mantissa patterns x {low fill 0, all ones}
        let mut v = Vec::new();
        let mut b = 0u32;
        while b <= one {
            v.push(b);
            v.push((b | 0x7ff).min(one));
            b += 0x800;
        }
        v.push(one);
        v
    };
    ctx.set("hann_f32_phases", json!(f32_patterns.len()));
    let evals = AtomicU64::new(0);
    guard::set_hang_secs(120);
    f32_patterns.par_chunks(1 << 16).for_each(|ch| {
        let _guard_scope = guard::scoped(&json!({"sys":"hann_f32","bits": ch[0]}).to_string());
        for &bits in ch {
            if let Some(m) = hann_f32_case(bits) {
                ctx.violation("hann.f32", json!({"sys":"hann_f32","bits":bits}), m, Some(&|| hann_f32_case(bits)));
            }
        }
        evals.fetch_add(ch.len() as u64, Relaxed);
        guard::leave();
    });
    let g = ctx.tier.pick(1u64 << 20, 1u64 << 24);
    let mut f64_points: Vec<f64> = (0..=g).map(|i| i as f64 / g as f64).collect();
    for c in [0.0f64, 0.25, 0.5, 0.75, 1.0] {
        let b = c.to_bits();
        for d in 0..64u64 {
            if c > 0.0 {
                f64_points.push(f64::from_bits(b - d));
            }
            if c < 1.0 {
                f64_points.push(f64::from_bits(b + d));
            }
        }
    }
    f64_points.par_chunks(1 << 14).for_each(|ch| {
        let _guard_scope = guard::scoped(&json!({"sys":"hann_f64","bits": ch[0].to_bits()}).to_string());
        for &p in ch {
            if let Some(m) = hann_f64_case(p) {
                ctx.violation("hann.f64", json!({"sys":"hann_f64","bits":p.to_bits()}), m, Some(&|| hann_f64_case(p)));
            }
            if let Some(m) = rect_case(p) {
                ctx.violation("rectangle", json!({"sys":"rect","bits":p.to_bits()}), m, Some(&|| rect_case(p)));
            }
        }
        evals.fetch_add(2 * ch.len() as u64, Relaxed);
        guard::leave();
    });
    ctx.set("hann_f64_phases", json!(f64_points.len()));
    // distinct non-trivial: distinct window values over the f64 grid (measured)
    let mut ws: Vec<u64> = f64_points.iter().step_by(ctx.tier.pick(16, 256)).map(|&p| <Hann as WindowFn<f64>>::window(p).to_bits()).collect();
    ws.sort();
    ws.dedup();
    ctx.add_distinct_counted(ws.len() as u64);
    if let Some(m) = special_points() {
        ctx.violation("hann.special", json!({"sys":"special"}), m, Some(&special_points));
    }

    // ---- Window iterator
    let nmax = ctx.tier.pick(64, 1024);
    for kind in ["hann", "rectangle"] {
        for n in (2..=nmax).chain([100usize, 257, 512, 1000, 1024, 2048, 4096, 44100, 48000, 65535, 65536, 65537].into_iter().filter(|&n| n > nmax)) {
            let case = json!({"sys":"window_iter","kind":kind,"n":n});
            let _guard_scope = guard::scoped(&case.to_string());
            evals.fetch_add(1, Relaxed);
            match catch(|| window_iter_case(kind, n)) {
                Ok(None) => ctx.observe(common::fnv_str(&format!("wi{kind}{n}"))),
                Ok(Some(m)) => ctx.violation("window.iter", case, m, Some(&|| window_iter_case(kind, n))),
                Err(p) => ctx.violation("window.iter", case, format!("panic: {p}"), None),
            }
        }
    }

    // ---- Windower
    let lmax = ctx.tier.pick(24, 40);
    let mut cases = Vec::new();
    for kind in ["hann", "rectangle"] {
        for fmt in ["f64", "[f32;2]", "[i16;2]"] {
            for l in 0..=lmax {
                for b in 2..=l + 2 {
                    for h in 1..=l + 2 {
                        cases.push((kind, fmt, l, b, h));
                    }
                }
            }
        }
    }
    // scale probes: long slices with structured (bin, hop)
    for kind in ["hann", "rectangle"] {
        for fmt in ["f64", "[i16;2]"] {
            for l in [100usize, 257, 1000] {
                for b in [2usize, 3, 64, l / 2, l - 1, l, l + 1] {
                    for h in [1usize, 2, b.saturating_sub(1).max(1), b, b + 1, l / 3 + 1, l, l + 5] {
                        cases.push((kind, fmt, l, b, h));
                    }
                }
            }
        }
    }
    // 16-bit boundary: slices of 2^16 +- 1 frames; (bin, hop) chosen so that chunks x bin stays small
    for kind in ["hann", "rectangle"] {
        for fmt in ["f64", "[i16;2]"] {
            for l in [1024usize, 4096, 44100, 48000, 65535, 65536, 65537] {
                for b in [2usize, 3, 64] {
                    for h in [1usize, 2, b, b + 1, 255, 256, l / 3 + 1, l, l + 5] {
                        cases.push((kind, fmt, l, b, h));
                    }
                }
                for b in [l / 2, l - 1, l, l + 1] {
                    for h in [l / 3 + 1, l / 2, b, b + 1, l, l + 5] {
                        cases.push((kind, fmt, l, b, h));
                    }
                }
            }
        }
    }
    ctx.set("windower_cases", json!(cases.len()));
    cases.par_iter().for_each(|&(kind, fmt, l, b, h)| {
        let case = json!({"sys":"windower","kind":kind,"fmt":fmt,"l":l,"b":b,"h":h});
        let _guard_scope = guard::scoped(&case.to_string());
        match catch(|| windower_dispatch(kind, fmt, l, b, h)) {
            Ok(None) => {
                if l >= b {
                    ctx.observe(common::fnv_str(&format!("{kind}{fmt}{l}/{b}/{h}")));
                }
            }
            Ok(Some((k, m))) => ctx.violation(&k, case, m, Some(&|| windower_dispatch(kind, fmt, l, b, h).map(|x| x.1))),
            Err(p) => ctx.violation("windower.panic", case, format!("panic: {p}"), None),
        }
        guard::leave();
    });
    evals.fetch_add(cases.len() as u64, Relaxed);
    ctx.add_evals(evals.load(Relaxed));
    ctx.set("exhaustive", json!(thorough));
    ctx.set("exhaustive_scope", json!("thorough: every f32 phase in [0,1]; both tiers: every (L,b,h) up to the stated L; f64 phases on a grid"));
    ctx.sample(json!({"sys":"windower","kind":"hann","fmt":"[i16;2]","l":8,"b":2,"h":1,"expected":"7 chunks; size_hint before the first next() must admit 7"}));
    ctx.sample(json!({"sys":"hann_f32","bits":1056964608u32,"meaning":"p = 0.5 -> 1.0"}));
    ctx.assume("libm cos as reference for the Hann shape; f64 phases only on a grid");
    ctx.finish();
}
