//! C03 (sample half) — amplitude arithmetic of the 14 sample formats against
//! the reference arithmetic, plus "a bare sample is the 1-channel frame".
//! Built in `release` and in `dbg` (overflow checks): a panic on an input
//! whose mathematical result is in range is a violation.

use scalar::domain::Domain;
use scalar::fmts::IntS;
use scalar::for_int_fmts;
use common::refmodel::{conv_int, f64_to_int, in_range, int_to_f32, int_to_f64, Fmt, INT_FMTS};
use common::{catch, guard, json, Ctx, Value};
use dasp_frame::{Frame, NChannels};
use dasp_sample::{FromSample, Sample, I24, I48, U24, U48};
use rayon::prelude::*;
use std::sync::atomic::{AtomicU64, Ordering::Relaxed};

const DEBUG: bool = cfg!(debug_assertions);

fn gains() -> Vec<f64> {
    let mut g = vec![0.0, 1.0, -1.0, 0.5, -0.5, 0.75, -0.75, 0.25, -0.25, 1.0 / 3.0, -1.0 / 3.0, 0.999, 0.9999999, -0.999, 1.5, -1.5, 2.0, -2.0, 3.0, 0.1, -0.1, 0.7, -0.7, 1e-3, 1e-6, 0.3];
    for k in 3..=9 {
        g.push(1.0 / (1u32 << k) as f64);
        g.push(-1.0 / (1u32 << k) as f64);
    }
    g
}

fn offsets(sc: Fmt) -> Vec<i128> {
    if sc.bits() == 8 {
        return (sc.min()..=sc.max()).collect();
    }
    let mut v = vec![0, 1, -1, 2, -2, 3, -3, sc.min(), sc.min() + 1, sc.max(), sc.max() - 1, sc.min() / 2, sc.max() / 2, sc.max() / 3, -(sc.max() / 3)];
    let mut k = 2;
    while k < sc.bits() - 1 && v.len() < 64 {
        v.push(1i128 << k);
        v.push(-(1i128 << k));
        if v.len() < 60 {
            v.push((1i128 << k) - 1);
        }
        k += if sc.bits() > 32 { 3 } else { 2 };
    }
    v.sort();
    v.dedup();
    v
}

/// reference: add_amp on an integer format
fn ref_add(f: Fmt, v: i128, a: i128) -> Option<i128> {
    let sc = f.signed_companion();
    let sum = conv_int(f, sc, v) + a;
    if !in_range(sc, sum) {
        return None; // the mathematical result leaves the Signed format: outside the law's domain
    }
    Some(conv_int(sc, f, sum))
}

/// reference: mul_amp on an integer format
fn ref_mul(f: Fmt, v: i128, g: f64) -> Option<i128> {
    let p: f64 = if f.float_companion() == Fmt::F32 { (int_to_f32(f, v) * (g as f32)) as f64 } else { int_to_f64(f, v) * g };
    if !(p >= -1.0 && p < 1.0) {
        return None;
    }
    f64_to_int(f, p)
}

type Bad = Option<(String, String)>;

fn gain_of<S: Sample>(g: f64) -> <S as Sample>::Float {
    <S::Float as FromSample<f64>>::from_sample_(g)
}

/// identities + conversions for one value
fn ident_case<S: IntS>(v: i128) -> Bad
where
    <S as Sample>::Signed: IntS,
    <S as Sample>::Float: Into<f64> + Copy,
{
    let f = S::FMT;
    let s = S::from_i128(v);
    let n = f.name();
    let zero = <<S as Sample>::Signed as IntS>::from_i128(0);
    match catch(|| Sample::add_amp(s, zero)) {
        Ok(r) if r == s => {}
        r => return Some((format!("{n}.add_amp0"), format!("{n} {v}.add_amp(0) gave {:?}", r.map(|x| x.to_i128())))),
    }
    match catch(|| Sample::mul_amp(s, gain_of::<S>(0.0))) {
        Ok(r) if r == S::EQUILIBRIUM => {}
        r => return Some((format!("{n}.mul_amp0"), format!("{n} {v}.mul_amp(0.0) gave {:?}, expected equilibrium {}", r.map(|x| x.to_i128()), f.half()))),
    }
    let mant = if f.float_companion() == Fmt::F32 { 24 } else { 53 };
    let tol: i128 = if f.bits() <= mant { 0 } else { 1i128 << (f.bits() - 1 - mant) };
    match catch(|| Sample::mul_amp(s, gain_of::<S>(1.0))) {
        Ok(r) if (r.to_i128() - v).abs() <= tol => {}
        r => return Some((format!("{n}.mul_amp1"), format!("{n} {v}.mul_amp(1.0) gave {:?}, allowed deviation {tol}", r.map(|x| x.to_i128())))),
    }
    let sc = f.signed_companion();
    let ts = s.to_signed_sample().to_i128();
    if ts != conv_int(f, sc, v) {
        return Some((format!("{n}.to_signed"), format!("{n} {v}.to_signed_sample() = {ts}, amplitude in {} is {}", sc.name(), conv_int(f, sc, v))));
    }
    let tf: f64 = s.to_float_sample().into();
    let ef: f64 = if f.float_companion() == Fmt::F32 { int_to_f32(f, v) as f64 } else { int_to_f64(f, v) };
    if tf.to_bits() != ef.to_bits() {
        return Some((format!("{n}.to_float"), format!("{n} {v}.to_float_sample() = {tf:e}, expected {ef:e}")));
    }
    None
}

fn add_case<S: IntS>(v: i128, a: i128) -> Bad
where
    <S as Sample>::Signed: IntS,
{
    let f = S::FMT;
    let exp = ref_add(f, v, a)?;
    let got = catch(|| Sample::add_amp(S::from_i128(v), <<S as Sample>::Signed as IntS>::from_i128(a)).to_i128());
    if got != Ok(exp) {
        return Some((format!("{}.add_amp", f.name()), format!("{} {v}.add_amp({a}) gave {got:?}; signed amplitude {} + {a} converted back is {exp}", f.name(), conv_int(f, f.signed_companion(), v))));
    }
    None
}

fn mul_case<S: IntS>(v: i128, g: f64) -> Bad {
    let f = S::FMT;
    let exp = ref_mul(f, v, g)?;
    let got = catch(|| Sample::mul_amp(S::from_i128(v), gain_of::<S>(g)).to_i128());
    if got != Ok(exp) {
        return Some((format!("{}.mul_amp", f.name()), format!("{} {v}.mul_amp({g:e}) gave {got:?}; float amplitude x gain truncated back is {exp}", f.name())));
    }
    None
}

/// a bare sample behaves as the 1-channel frame of that sample
fn mono_case<S: IntS + Frame<Sample = S, NumChannels = NChannels<1>>>(v: i128, a: i128, g: f64) -> Bad
where
    <S as Sample>::Signed: IntS,
    <S as Sample>::Signed: Frame<Sample = <S as Sample>::Signed, NumChannels = NChannels<1>>,
    <S as Sample>::Float: Frame<Sample = <S as Sample>::Float, NumChannels = NChannels<1>> + PartialEq + std::fmt::Debug,
    [S; 1]: Frame<Sample = S, NumChannels = NChannels<1>>,
{
    let n = S::FMT.name();
    let s = S::from_i128(v);
    let arr = [s];
    let key = format!("{n}.mono");
    let gv = gain_of::<S>(g);
    if ref_mul(S::FMT, v, g).is_some() {
        let x = catch(|| Frame::scale_amp(s, gv));
        let y = catch(|| Frame::scale_amp(arr, gv)[0]);
        if x != y {
            return Some((key, format!("bare {n} {v}: scale_amp({g:e}) = {x:?} but on [s] = {y:?}")));
        }
        let x = catch(|| Frame::mul_amp(s, gv));
        let y = catch(|| Frame::mul_amp(arr, [gv])[0]);
        if x != y {
            return Some((key, format!("bare {n} {v}: mul_amp(frame {g:e}) = {x:?} but on [s] = {y:?}")));
        }
    }
    if ref_add(S::FMT, v, a).is_some() {
        let av = <<S as Sample>::Signed as IntS>::from_i128(a);
        let x = catch(|| Frame::add_amp(s, av));
        let y = catch(|| Frame::add_amp(arr, [av])[0]);
        if x != y {
            return Some((key, format!("bare {n} {v}: add_amp({a}) = {x:?} but on [s] = {y:?}")));
        }
        let x = catch(|| Frame::offset_amp(s, av));
        let y = catch(|| Frame::offset_amp(arr, av)[0]);
        if x != y {
            return Some((key, format!("bare {n} {v}: offset_amp({a}) = {x:?} but on [s] = {y:?}")));
        }
    }
    if Frame::channel(&Frame::to_signed_frame(s), 0) != Frame::channel(&Frame::to_signed_frame(arr), 0) || Frame::channel(&Frame::to_float_frame(s), 0) != Frame::channel(&Frame::to_float_frame(arr), 0) {
        return Some((key, format!("bare {n} {v}: to_signed_frame/to_float_frame differ from the 1-channel frame")));
    }
    let m1: S = Frame::map(s, |x| x);
    let z1: S = Frame::zip_map(s, s, |x, _y: S| x);
    if m1 != s || z1 != s || <S as Frame>::EQUILIBRIUM != <[S; 1] as Frame>::EQUILIBRIUM[0] || <S as Frame>::CHANNELS != 1 {
        return Some((key, format!("bare {n} {v}: map/zip_map/EQUILIBRIUM/CHANNELS differ from the 1-channel frame")));
    }
    let mut calls = Vec::new();
    let ff: S = Frame::from_fn(|i| {
        calls.push(i);
        s
    });
    let mut it = [s, s].into_iter();
    let fs: Option<S> = Frame::from_samples(&mut it);
    let mut empty = std::iter::empty::<S>();
    let fe: Option<S> = Frame::from_samples(&mut empty);
    if ff != s || calls != [0] || fs != Some(s) || it.len() != 1 || fe.is_some() {
        return Some((key, format!("bare {n} {v}: from_fn/from_samples do not behave as for a 1-channel frame")));
    }
    let ch: Vec<S> = Frame::channels(s).collect();
    let chr: Vec<S> = Frame::channels_ref(&s).copied().collect();
    let mut s2 = s;
    let chm: Vec<S> = Frame::channels_mut(&mut s2).map(|x| *x).collect();
    if ch != [s] || chr != [s] || chm != [s] || Frame::channel(&s, 0) != Some(&s) || Frame::channel(&s, 1).is_some() || Frame::channel_mut(&mut s2, 1).is_some() || Frame::channel_mut(&mut s2, 0).map(|x| *x) != Some(s) {
        return Some((key, format!("bare {n} {v}: channels/channel(i) do not behave as for a 1-channel frame")));
    }
    None
}

fn value_domain(bits: u32, complete_upto: u32) -> Domain {
    if bits <= complete_upto {
        Domain::complete(bits)
    } else {
        let mut d = Domain::new(bits);
        d.add_lattice(12, false);
        d.add_boundaries(4096, 64);
        d
    }
}

fn small_domain(bits: u32) -> Domain {
    if bits <= 16 {
        Domain::complete(bits)
    } else {
        let mut d = Domain::new(bits);
        d.add_lattice(8, false);
        d.add_boundaries(256, 8);
        d
    }
}

struct Tot {
    evals: AtomicU64,
}

fn sweep<S: IntS + Frame<Sample = S, NumChannels = NChannels<1>>>(ctx: &Ctx, tot: &Tot, thorough: bool)
where
    <S as Sample>::Signed: IntS,
    <S as Sample>::Float: Into<f64> + Copy,
    <S as Sample>::Signed: Frame<Sample = <S as Sample>::Signed, NumChannels = NChannels<1>>,
    <S as Sample>::Float: Frame<Sample = <S as Sample>::Float, NumChannels = NChannels<1>> + PartialEq + std::fmt::Debug,
    [S; 1]: Frame<Sample = S, NumChannels = NChannels<1>>,
{
    let f = S::FMT;
    let min = f.min();
    let name = f.name();
    let report = |kind: &str, v: i128, a: i128, g: f64, b: (String, String)| {
        let case = json!({"fmt": name, "kind": kind, "v": v.to_string(), "a": a.to_string(), "g": g.to_bits().to_string(), "profile": if DEBUG {"dbg"} else {"release"}});
        let kind = kind.to_string();
        ctx.violation(&b.0, case, b.1, Some(&move || run_single::<S>(&kind, v, a, g).map(|x| x.1)));
    };
    // identities on the big domain
    let idom = value_domain(f.bits(), if thorough && !DEBUG { 32 } else { 24 });
    idom.pieces.par_iter().for_each(|p| {
        let _guard_scope = guard::scoped(&json!({"fmt": name, "kind": "ident", "piece": p.describe()}).to_string());
        let mut n = 0u64;
        let mut bad = None;
        p.for_each(|u| {
            n += 1;
            if bad.is_none() {
                if let Some(b) = ident_case::<S>(min + u as i128) {
                    bad = Some((min + u as i128, b));
                }
            }
        });
        tot.evals.fetch_add(5 * n, Relaxed);
        if let Some((v, b)) = bad {
            report("ident", v, 0, 0.0, b);
        }
        guard::leave();
    });
    ctx.set(&format!("{name}.identity_domain"), json!(format!("{} ({} values)", if idom.exhaustive { "complete" } else { &idom.desc }, idom.points())));
    // general laws on the small domain x offsets x gains
    let sdom = small_domain(f.bits());
    let offs = offsets(f.signed_companion());
    let gs = gains();
    sdom.pieces.par_iter().for_each(|p| {
        let _guard_scope = guard::scoped(&json!({"fmt": name, "kind": "laws", "piece": p.describe()}).to_string());
        let mut n = 0u64;
        let mut fps = Vec::new();
        let mut first: Option<(&str, i128, i128, f64, (String, String))> = None;
        p.for_each(|u| {
            let v = min + u as i128;
            for (i, &a) in offs.iter().enumerate() {
                n += 1;
                if first.is_none() {
                    if let Some(b) = add_case::<S>(v, a) {
                        first = Some(("add", v, a, 0.0, b));
                    }
                    // the mono laws on a thinner grid
                    if (u as usize).wrapping_add(i) % 16 == 0 {
                        let g = gs[(u as usize).wrapping_add(i) % gs.len()];
                        if let Some(b) = mono_case::<S>(v, a, g) {
                            first = Some(("mono", v, a, g, b));
                        }
                    }
                }
            }
            for &g in &gs {
                n += 1;
                if first.is_none() {
                    if let Some(b) = mul_case::<S>(v, g) {
                        first = Some(("mul", v, 0, g, b));
                    }
                }
            }
            if fps.len() < 512 {
                fps.push(common::mix(common::fnv_str(name), u));
            }
        });
        tot.evals.fetch_add(n, Relaxed);
        ctx.observe_many(fps);
        if let Some((k, v, a, g, b)) = first {
            report(k, v, a, g, b);
        }
        guard::leave();
    });
    ctx.set(&format!("{name}.law_domain"), json!(format!("{} values x {} offsets + {} gains", sdom.points(), offs.len(), gs.len())));
}

fn run_single<S: IntS + Frame<Sample = S, NumChannels = NChannels<1>>>(kind: &str, v: i128, a: i128, g: f64) -> Bad
where
    <S as Sample>::Signed: IntS,
    <S as Sample>::Float: Into<f64> + Copy,
    <S as Sample>::Signed: Frame<Sample = <S as Sample>::Signed, NumChannels = NChannels<1>>,
    <S as Sample>::Float: Frame<Sample = <S as Sample>::Float, NumChannels = NChannels<1>> + PartialEq + std::fmt::Debug,
    [S; 1]: Frame<Sample = S, NumChannels = NChannels<1>>,
{
    match kind {
        "ident" => ident_case::<S>(v),
        "add" => add_case::<S>(v, a),
        "mul" => mul_case::<S>(v, g),
        "mono" => mono_case::<S>(v, a, g),
        _ => Some(("c03".into(), "unknown kind".into())),
    }
}

// float formats: native arithmetic
fn float_sweep(ctx: &Ctx, tot: &Tot) {
    let gs = gains();
    let mut vals: Vec<f64> = vec![0.0, -0.0, 1.0, -1.0, 0.5, -0.5, 1e-30, -1e-30, f64::MIN_POSITIVE, 0.999_999_9, 1.0 / 3.0];
    for i in -2048..=2048 {
        vals.push(i as f64 / 2048.0);
        vals.push(i as f64 / 2048.0 + 1e-9);
    }
    let mut n = 0u64;
    let _guard_scope = guard::scoped(&json!({"fmt":"f32/f64","kind":"float"}).to_string());
    for &x in &vals {
        for &g in &gs {
            n += 4;
            let (xf, gf) = (x as f32, g as f32);
            let bad32 = Sample::add_amp(xf, gf) != xf + gf || Sample::mul_amp(xf, gf) != xf * gf || Frame::scale_amp(xf, gf) != xf * gf || Frame::add_amp(xf, gf) != xf + gf || Frame::scale_amp([xf], gf)[0] != xf * gf;
            let bad64 = Sample::add_amp(x, g) != x + g || Sample::mul_amp(x, g) != x * g || Frame::scale_amp(x, g) != x * g || Frame::add_amp(x, g) != x + g || Frame::scale_amp([x], g)[0] != x * g;
            if bad32 || bad64 {
                ctx.violation("float.arith", json!({"fmt":"float","v":x.to_bits().to_string(),"g":g.to_bits().to_string()}), format!("float sample {x:e}: add_amp/mul_amp with {g:e} is not native addition/multiplication"), None);
            }
        }
        let xf = x as f32;
        if Sample::add_amp(xf, 0.0) != xf || Sample::mul_amp(xf, 1.0) != xf || Sample::mul_amp(xf, 0.0) != 0.0 || xf.to_signed_sample() != xf || xf.to_float_sample() != xf || Sample::add_amp(x, 0.0) != x || Sample::mul_amp(x, 1.0) != x || Sample::mul_amp(x, 0.0) != 0.0 || x.to_signed_sample() != x || x.to_float_sample() != x {
            ctx.violation("float.ident", json!({"fmt":"float","v":x.to_bits().to_string()}), format!("float sample {x:e}: identity laws fail"), None);
        }
        ctx.observe(x.to_bits());
    }
    tot.evals.fetch_add(n, Relaxed);
}

fn dispatch(v: &Value) -> Option<String> {
    let kind = v["kind"].as_str()?.to_string();
    let val: i128 = v["v"].as_str()?.parse().ok()?;
    let a: i128 = v["a"].as_str().and_then(|s| s.parse().ok()).unwrap_or(0);
    let g = f64::from_bits(v["g"].as_str().and_then(|s| s.parse().ok()).unwrap_or(0));
    let f = INT_FMTS.iter().copied().find(|f| Some(f.name()) == v["fmt"].as_str())?;
    macro_rules! go {
        ($S:ty) => {
            run_single::<$S>(&kind, val, a, g).map(|x| format!("{}: {}", x.0, x.1))
        };
    }
    match f {
        Fmt::I8 => go!(i8),
        Fmt::I16 => go!(i16),
        Fmt::I24 => go!(I24),
        Fmt::I32 => go!(i32),
        Fmt::I48 => go!(I48),
        Fmt::I64 => go!(i64),
        Fmt::U8 => go!(u8),
        Fmt::U16 => go!(u16),
        Fmt::U24 => go!(U24),
        Fmt::U32 => go!(u32),
        Fmt::U48 => go!(U48),
        Fmt::U64 => go!(u64),
        _ => None,
    }
}

fn main() {
    let ctx = Ctx::new("C03", if DEBUG { "values-dbg" } else { "values" });
    if ctx.part.ends_with("dbg") != DEBUG {
        ctx.machinery_failure("part name does not match the build profile");
    }
    if let Some(v) = ctx.replay_case() {
        let _guard_scope = guard::scoped(&v.to_string());
        ctx.finish_replay(catch(|| dispatch(&v)).unwrap_or_else(|p| Some(format!("panic: {p}"))));
    }
    guard::set_hang_secs(600);
    let tot = Tot { evals: AtomicU64::new(0) };
    let thorough = ctx.thorough();
    macro_rules! go {
        ($m:ident, $S:ty) => {
            sweep::<$S>(&ctx, &tot, thorough);
        };
    }
    for_int_fmts!(go);
    float_sweep(&ctx, &tot);
    ctx.add_evals(tot.evals.load(Relaxed));
    ctx.set("exhaustive", json!(false));
    ctx.set("exhaustive_scope", json!("identity laws complete for <=24-bit formats (thorough release: <=32-bit); general add/mul laws complete for 8- and 16-bit formats x the offset/gain alphabets; lattices above"));
    ctx.rule(&format!("profile {}: per integer format: add_amp(0)==s, mul_amp(0.0)==EQUILIBRIUM, mul_amp(1.0) within 2^(bits-1-mantissa) (exact when the width fits the companion float), to_signed_sample/to_float_sample == reference conversions, over the identity domain; add_amp(s,a)==from_signed(to_signed(s)+a) and mul_amp(s,g)==from_float(fl(to_float(s)*g)) with reference conversions, for s over the law domain x offsets (all 256 for 8-bit companions, ~60 boundary values otherwise) x 40 gains, restricted to in-range mathematical results; bare sample == 1-channel frame for every Frame method on a thinner grid; float formats: native + and *; non-trivial = a law-domain value (distinct by format and value)", if DEBUG { "dbg (a panic on an in-range case is a violation)" } else { "release" }));
    ctx.sample(json!({"fmt":"U24","kind":"add","v":"8388608","a":"-256","g":"0","meaning":"U24's Signed companion is i32: amplitude is scaled by 2^8, so offset -256 moves the sample by -1"}));
    ctx.sample(json!({"fmt":"u8","kind":"mul","v":"64","a":"0","g": 0.5f64.to_bits().to_string(),"meaning":"re-centred: amplitude -64 * 0.5 = -32 -> 96"}));
    ctx.finish();
}
