//! C11 — windowed RMS against an exact recomputation over the last N frames.
//! The same source is compiled twice: in the main workspace (std build of
//! dasp) and, through nostd/src/bin/c11n.rs, against dasp with
//! `default-features = false` (cfg verif_nostd), where sample_sqrt is the
//! exponent-halving approximation.

use common::{catch, guard, json, Ctx, Value};
use dasp_frame::Frame;
use dasp_ring_buffer::Fixed;
use dasp_rms::Rms;
use dasp_sample::{FloatSample, Sample};
use rayon::prelude::*;
use stateright::{Checker, Model, Property};
use std::collections::VecDeque;
use std::fmt::Debug;
use std::hash::{Hash, Hasher};
use std::sync::atomic::{AtomicU64, Ordering::Relaxed};

const NOSTD: bool = cfg!(verif_nostd);

// ------------------------------------------------------------- frame types
trait RF: Frame + Copy + Debug + Send + Sync + 'static {
    const NAME: &'static str;
    /// machine epsilon of the float companion
    const EPS: f64;
    /// exact dyadic alphabet: every square and every window sum (N <= 4) is exact
    fn alphabet() -> Vec<Self>;
    /// non-dyadic alphabet for the cancellation histories (float mono only)
    fn rough() -> Vec<Self> {
        Vec::new()
    }
    /// exact amplitudes in [-1, 1], per channel
    fn amps(self) -> Vec<f64>;
    fn fl(f: Self::Float) -> Vec<f64>;
    fn from_f64(x: f64) -> Self;
}

fn pair<T: Copy>(a: &[T]) -> Vec<[T; 2]> {
    // channel 1 carries a different letter than channel 0 (position-coded)
    (0..a.len()).map(|i| [a[i], a[(i + 3) % a.len()]]).collect()
}

const FA: [f64; 8] = [0.0, 0.25, -0.25, 0.5, -0.5, 0.75, 1.0, -1.0];
const ROUGH: [f64; 8] = [0.0, 1e-9, 1e-4, 1e-3, 0.1, 0.3, 0.7, 1.0];

impl RF for [f32; 1] {
    const NAME: &'static str = "[f32;1]";
    const EPS: f64 = f32::EPSILON as f64;
    fn alphabet() -> Vec<Self> {
        FA.iter().map(|&x| [x as f32]).collect()
    }
    fn rough() -> Vec<Self> {
        ROUGH.iter().map(|&x| [x as f32]).collect()
    }
    fn amps(self) -> Vec<f64> {
        vec![self[0] as f64]
    }
    fn fl(f: [f32; 1]) -> Vec<f64> {
        vec![f[0] as f64]
    }
    fn from_f64(x: f64) -> Self {
        [x as f32]
    }
}
impl RF for [f32; 2] {
    const NAME: &'static str = "[f32;2]";
    const EPS: f64 = f32::EPSILON as f64;
    fn alphabet() -> Vec<Self> {
        pair(&FA.iter().map(|&x| x as f32).collect::<Vec<_>>())
    }
    fn rough() -> Vec<Self> {
        pair(&ROUGH.iter().map(|&x| x as f32).collect::<Vec<_>>())
    }
    fn amps(self) -> Vec<f64> {
        vec![self[0] as f64, self[1] as f64]
    }
    fn fl(f: [f32; 2]) -> Vec<f64> {
        vec![f[0] as f64, f[1] as f64]
    }
    fn from_f64(x: f64) -> Self {
        [x as f32, -x as f32]
    }
}
impl RF for [f64; 1] {
    const NAME: &'static str = "[f64;1]";
    const EPS: f64 = f64::EPSILON;
    fn alphabet() -> Vec<Self> {
        FA.iter().map(|&x| [x]).collect()
    }
    fn rough() -> Vec<Self> {
        ROUGH.iter().map(|&x| [x]).collect()
    }
    fn amps(self) -> Vec<f64> {
        vec![self[0]]
    }
    fn fl(f: [f64; 1]) -> Vec<f64> {
        vec![f[0]]
    }
    fn from_f64(x: f64) -> Self {
        [x]
    }
}
impl RF for [f64; 2] {
    const NAME: &'static str = "[f64;2]";
    const EPS: f64 = f64::EPSILON;
    fn alphabet() -> Vec<Self> {
        pair(&FA)
    }
    fn rough() -> Vec<Self> {
        pair(&ROUGH)
    }
    fn amps(self) -> Vec<f64> {
        vec![self[0], self[1]]
    }
    fn fl(f: [f64; 2]) -> Vec<f64> {
        vec![f[0], f[1]]
    }
    fn from_f64(x: f64) -> Self {
        [x, -x]
    }
}
impl RF for [i16; 2] {
    const NAME: &'static str = "[i16;2]";
    const EPS: f64 = f32::EPSILON as f64;
    fn alphabet() -> Vec<Self> {
        pair(&[0i16, 1 << 14, -(1 << 14), 3 << 13, i16::MIN, 1 << 13])
    }
    fn amps(self) -> Vec<f64> {
        vec![self[0] as f64 / 32768.0, self[1] as f64 / 32768.0]
    }
    fn fl(f: [f32; 2]) -> Vec<f64> {
        vec![f[0] as f64, f[1] as f64]
    }
    fn from_f64(x: f64) -> Self {
        [(x * 32767.0) as i16, (-x * 32767.0) as i16]
    }
}
impl RF for [u8; 1] {
    const NAME: &'static str = "[u8;1]";
    const EPS: f64 = f32::EPSILON as f64;
    fn alphabet() -> Vec<Self> {
        [0u8, 64, 128, 192, 255, 160].iter().map(|&x| [x]).collect()
    }
    fn amps(self) -> Vec<f64> {
        vec![(self[0] as f64 - 128.0) / 128.0]
    }
    fn fl(f: [f32; 1]) -> Vec<f64> {
        vec![f[0] as f64]
    }
    fn from_f64(x: f64) -> Self {
        [(128.0 + x * 127.0) as u8]
    }
}

// --------------------------------------------------------------- actions
#[derive(Clone, Copy, Debug, PartialEq, Eq, Hash)]
enum Act {
    Next(u8),
    NextSq(u8),
    Current,
    Reset,
}
impl Act {
    fn name(self) -> String {
        match self {
            Act::Next(i) => format!("next:{i}"),
            Act::NextSq(i) => format!("next_squared:{i}"),
            Act::Current => "current".into(),
            Act::Reset => "reset".into(),
        }
    }
    fn parse(s: &str) -> Option<Act> {
        Some(match s.split_once(':') {
            Some(("next", i)) => Act::Next(i.parse().ok()?),
            Some(("next_squared", i)) => Act::NextSq(i.parse().ok()?),
            None if s == "current" => Act::Current,
            None if s == "reset" => Act::Reset,
            _ => return None,
        })
    }
}

type Bad = (String, String);

/// sqrt tolerance of the build under test
fn sqrt_ok(out: f64, ms: f64, eps: f64) -> bool {
    let r = ms.max(0.0).sqrt();
    if !(out >= 0.0) {
        return false; // negative or NaN
    }
    if NOSTD {
        (out - r).abs() <= 0.07 * r + 1e-18
    } else {
        (out - r).abs() <= 2.0 * eps * r + 1e-300
    }
}

struct Sys<F: RF> {
    rms: Rms<F, Vec<F::Float>>,
    last: VecDeque<Vec<f64>>, // the last N input frames (amplitudes), zero-initialised
    n: usize,
    exact: bool, // alphabet is exact: demand exact internal state
}

impl<F: RF> Sys<F>
where
    F::Float: Copy + Debug,
{
    fn new(n: usize, exact: bool) -> Self {
        let ch = F::CHANNELS;
        Sys {
            rms: Rms::new(Fixed::from(vec![<F::Float as Frame>::EQUILIBRIUM; n])),
            last: (0..n).map(|_| vec![0.0; ch]).collect(),
            n,
            exact,
        }
    }
    fn ms(&self) -> Vec<f64> {
        (0..F::CHANNELS).map(|c| self.last.iter().map(|f| f[c] * f[c]).sum::<f64>() / self.n as f64).collect()
    }
    /// (first, window in logical order, sum) of the real detector
    fn parts(&self) -> (usize, Vec<Vec<f64>>, Vec<f64>) {
        let (win, sum) = self.rms.clone().into_parts();
        let w: Vec<Vec<f64>> = win.iter().map(|f| F::fl(*f)).collect();
        let (first, _) = win.into_raw_parts();
        (first, w, F::fl(sum))
    }
    fn key(&self) -> Vec<u64> {
        let (first, w, s) = self.parts();
        let mut k = vec![first as u64];
        for f in w {
            k.extend(f.iter().map(|x| x.to_bits()));
        }
        k.extend(s.iter().map(|x| x.to_bits()));
        k
    }
    /// Internal-state invariants (window == squares of the last N inputs, running sum == their
    /// exact sum). The property speaks about outputs and about reset restoring the all-zero state,
    /// not about how the detector stores its window, so this is NOT judged (kept for diagnosis).
    #[allow(dead_code)]
    fn check_state(&self, what: &str) -> Result<(), Bad> {
        if !self.exact {
            return Ok(());
        }
        let (_, w, s) = self.parts();
        for (i, (wf, rf)) in w.iter().zip(self.last.iter()).enumerate() {
            for c in 0..F::CHANNELS {
                if wf[c] != rf[c] * rf[c] {
                    return Err(("rms.window".into(), format!("after {what}: window slot {i} channel {c} holds {:e}, expected the square of input {:e}", wf[c], rf[c])));
                }
            }
        }
        for c in 0..F::CHANNELS {
            let exact: f64 = self.last.iter().map(|f| f[c] * f[c]).sum();
            if s[c] != exact {
                return Err(("rms.sum".into(), format!("after {what}: running square sum channel {c} = {:e}, exact sum of the window = {exact:e}", s[c])));
            }
        }
        Ok(())
    }
    fn step(&mut self, alpha: &[F], a: Act) -> Result<u64, Bad> {
        let tag = a.name();
        let mut obs = 0u64;
        match a {
            Act::Next(i) | Act::NextSq(i) => {
                let f = alpha[i as usize];
                self.last.pop_front();
                self.last.push_back(f.amps());
                let ms = self.ms();
                let sq = matches!(a, Act::NextSq(_));
                let out = catch(|| if sq { self.rms.next_squared(f) } else { self.rms.next(f) }).map_err(|p| ("rms.panic".to_string(), format!("{tag} panicked: {p}")))?;
                let out = F::fl(out);
                for c in 0..F::CHANNELS {
                    let ok = if sq { out[c] >= 0.0 && (out[c] - ms[c]).abs() <= F::EPS * ms[c] + 1e-300 } else { sqrt_ok(out[c], ms[c], F::EPS) };
                    if !ok {
                        return Err((
                            if sq { "rms.next_squared".into() } else { "rms.next".into() },
                            format!("{} N={} {tag}({:?}) channel {c} returned {:e}; mean square of the last N frames = {:e} (sqrt {:e}); window {:?}", F::NAME, self.n, f, out[c], ms[c], ms[c].sqrt(), self.last),
                        ));
                    }
                    obs = common::mix(obs, out[c].to_bits());
                }
            }
            Act::Current => {
                let ms = self.ms();
                let out = F::fl(catch(|| self.rms.current()).map_err(|p| ("rms.panic".to_string(), format!("current panicked: {p}")))?);
                for c in 0..F::CHANNELS {
                    if !sqrt_ok(out[c], ms[c], F::EPS) {
                        return Err(("rms.current".into(), format!("{} N={} current() channel {c} = {:e}; sqrt of mean square = {:e}", F::NAME, self.n, out[c], ms[c].sqrt())));
                    }
                    obs = common::mix(obs, out[c].to_bits());
                }
                if self.rms.window_frames() != self.n {
                    return Err(("rms.window_frames".into(), format!("window_frames() = {}, N = {}", self.rms.window_frames(), self.n)));
                }
            }
            Act::Reset => {
                for f in self.last.iter_mut() {
                    *f = vec![0.0; F::CHANNELS];
                }
                catch(|| self.rms.reset()).map_err(|p| ("rms.panic".to_string(), format!("reset panicked: {p}")))?;
                let (_, w, s) = self.parts();
                if w.iter().flatten().any(|x| *x != 0.0) || s.iter().any(|x| *x != 0.0) {
                    return Err(("rms.reset".into(), format!("{} N={} reset() left window {w:?} sum {s:?}", F::NAME, self.n)));
                }
            }
        }
        let _ = &tag;
        Ok(obs)
    }
}

fn run_path<F: RF>(n: usize, alpha: &[F], exact: bool, acts: &[Act]) -> Result<(Vec<u64>, u64), Bad>
where
    F::Float: Copy + Debug,
{
    let mut s = Sys::<F>::new(n, exact);
    let mut fp = 0;
    for &a in acts {
        fp = common::mix(fp, s.step(alpha, a)?);
    }
    Ok((s.key(), fp))
}

// ------------------------------------------------------------ stateright model
#[derive(Clone, Debug)]
struct St {
    key: Vec<u64>,
    witness: Vec<Act>,
    bad: bool,
}
impl PartialEq for St {
    fn eq(&self, o: &St) -> bool {
        self.key == o.key && self.bad == o.bad
    }
}
impl Eq for St {}
impl Hash for St {
    fn hash<H: Hasher>(&self, h: &mut H) {
        self.key.hash(h);
        self.bad.hash(h);
    }
}

struct RmsModel<F: RF> {
    ctx: &'static Ctx,
    n: usize,
    alpha: Vec<F>,
    transitions: &'static AtomicU64,
}

fn case_json(fname: &str, n: usize, alphabet: &str, acts: &[Act]) -> Value {
    json!({"sys": "rms", "frame": fname, "n": n, "alphabet": alphabet, "build": if NOSTD {"no_std"} else {"std"},
           "actions": acts.iter().map(|a| a.name()).collect::<Vec<_>>()})
}

impl<F: RF> Model for RmsModel<F>
where
    F::Float: Copy + Debug,
{
    type State = St;
    type Action = Act;
    fn init_states(&self) -> Vec<St> {
        let (key, _) = run_path::<F>(self.n, &self.alpha, true, &[]).ok().unwrap();
        vec![St { key, witness: vec![], bad: false }]
    }
    fn actions(&self, s: &St, out: &mut Vec<Act>) {
        if s.bad {
            return;
        }
        for i in 0..self.alpha.len() as u8 {
            out.push(Act::Next(i));
        }
        for i in 0..self.alpha.len() as u8 {
            out.push(Act::NextSq(i));
        }
        out.push(Act::Current);
        out.push(Act::Reset);
    }
    fn next_state(&self, s: &St, a: Act) -> Option<St> {
        let mut acts = s.witness.clone();
        acts.push(a);
        let case = case_json(F::NAME, self.n, "exact", &acts);
        let _guard_scope = guard::scoped(&case.to_string());
        self.transitions.fetch_add(1, Relaxed);
        match run_path::<F>(self.n, &self.alpha, true, &acts) {
            Ok((key, fp)) => {
                self.ctx.observe(common::mix(common::fnv_str(&format!("{}{}{:?}{}", F::NAME, self.n, s.key, a.name())), fp));
                Some(St { key, witness: acts, bad: false })
            }
            Err((k, m)) => {
                let known = self.ctx.is_known(&k).is_some();
                let alpha = self.alpha.clone();
                let n = self.n;
                let acts2 = acts.clone();
                self.ctx.violation(&k, case, m, Some(&move || run_path::<F>(n, &alpha, true, &acts2).err().map(|e| e.1)));
                if known {
                    None
                } else {
                    Some(St { key: s.key.clone(), witness: acts, bad: true })
                }
            }
        }
    }
    fn properties(&self) -> Vec<Property<Self>> {
        vec![Property::always("rms agrees with the exact mean of the last N squares", |_, s: &St| !s.bad)]
    }
}

static TRANSITIONS: AtomicU64 = AtomicU64::new(0);

fn merged<F: RF>(ctx: &'static Ctx, n: usize) -> (usize, usize, usize)
where
    F::Float: Copy + Debug,
{
    let m = RmsModel::<F> { ctx, n, alpha: F::alphabet(), transitions: &TRANSITIONS };
    let c = m.checker().threads(1).spawn_bfs().join();
    (c.unique_state_count(), c.state_count(), c.max_depth())
}

// ------------------------------------------------ cancellation histories (DFS)
/// Every history of length <= depth over the non-dyadic alphabet; tolerance
/// oracle plus "never negative, never NaN".
fn cancel_dfs<F: RF>(ctx: &Ctx, n: usize, depth: usize, count: &mut u64)
where
    F::Float: Copy + Debug,
{
    let alpha = F::rough();
    fn rec<F: RF>(ctx: &Ctx, n: usize, alpha: &[F], rms: &Rms<F, Vec<F::Float>>, last: &VecDeque<Vec<f64>>, t: usize, depth: usize, path: &mut Vec<Act>, count: &mut u64)
    where
        F::Float: Copy + Debug,
    {
        if depth == 0 {
            return;
        }
        for (i, f) in alpha.iter().enumerate() {
            let mut r2 = rms.clone();
            let mut l2 = last.clone();
            l2.pop_front();
            l2.push_back(f.amps());
            path.push(Act::Next(i as u8));
            *count += 1;
            if let Some((k, m)) = rough_step::<F>(n, &mut r2, &l2, *f, t + 1) {
                let case = case_json(F::NAME, n, "rough", path);
                let p2 = path.clone();
                ctx.violation(&k, case, m, Some(&move || rough_path::<F>(n, &p2).map(|e| e.1)));
            } else {
                rec(ctx, n, alpha, &r2, &l2, t + 1, depth - 1, path, count);
            }
            path.pop();
        }
        // reset from this (possibly rounding-polluted) state: must restore the all-zero state
        if t > 0 && !matches!(path.last(), Some(Act::Reset)) {
            let mut r2 = rms.clone();
            path.push(Act::Reset);
            *count += 1;
            if let Some((k, m)) = rough_reset::<F>(n, &mut r2) {
                let case = case_json(F::NAME, n, "rough", path);
                let p2 = path.clone();
                ctx.violation(&k, case, m, Some(&move || rough_path::<F>(n, &p2).map(|e| e.1)));
            } else {
                let zero: VecDeque<Vec<f64>> = (0..n).map(|_| vec![0.0; F::CHANNELS]).collect();
                rec(ctx, n, alpha, &r2, &zero, 0, depth - 1, path, count);
            }
            path.pop();
        }
    }
    let rms = Rms::<F, Vec<F::Float>>::new(Fixed::from(vec![<F::Float as Frame>::EQUILIBRIUM; n]));
    let last: VecDeque<Vec<f64>> = (0..n).map(|_| vec![0.0; F::CHANNELS]).collect();
    rec::<F>(ctx, n, &alpha, &rms, &last, 0, depth, &mut Vec::new(), count);
}

/// A copy of the detector obtained the other way `Clone` offers: `clone_from` into a detector that
/// already has a history of its own (a different window content and running sum).
fn copy_into_used<F: RF>(rms: &Rms<F, Vec<F::Float>>, f: F) -> Rms<F, Vec<F::Float>>
where
    F::Float: Copy + Debug,
{
    let mut used = rms.clone();
    used.next(f);
    used.next(f);
    used.clone_from(rms);
    used
}

/// one tolerant step: `last` already contains the new frame; every channel is judged
fn rough_step<F: RF>(n: usize, rms: &mut Rms<F, Vec<F::Float>>, last: &VecDeque<Vec<f64>>, f: F, t: usize) -> Option<Bad>
where
    F::Float: Copy + Debug,
{
    // a panic in the detector (an overflow check, a debug assertion) on a finite input is a violation
    // (the copy is taken through clone() on even steps and through clone_from() on odd ones)
    let (ms_all, out_all) = match catch(|| (F::fl(if t % 2 == 0 { rms.clone() } else { copy_into_used(rms, f) }.next_squared(f)), F::fl(rms.next(f)))) {
        Ok(x) => x,
        Err(p) => return Some(("rms.panic".into(), format!("{} N={n} step {t}: panicked: {p}", F::NAME))),
    };
    for c in 0..F::CHANNELS {
        let ms_ref: f64 = last.iter().map(|x| x[c] * x[c]).sum::<f64>() / n as f64;
        let (ms_impl, out) = (ms_all[c], out_all[c]);
        // two rounded additions per step on a sum bounded by N; the clamp only moves the sum towards the truth
        let bound = 4.0 * (t + n) as f64 * F::EPS * (n as f64) / n as f64 + 1e-300;
        if !(ms_impl >= 0.0) || (ms_impl - ms_ref).abs() > bound {
            return Some(("rms.drift".into(), format!("{} N={n} step {t} channel {c}: mean square {ms_impl:e} vs exact {ms_ref:e} (bound {bound:e})", F::NAME)));
        }
        if !sqrt_ok(out, ms_impl, F::EPS) {
            return Some(("rms.next".into(), format!("{} N={n} step {t} channel {c}: next() = {out:e} but next_squared() = {ms_impl:e} (sqrt {:e})", F::NAME, ms_impl.sqrt())));
        }
    }
    None
}

/// reset() in the tolerant runs: whatever rounding left behind, the state must be all zero afterwards
fn rough_reset<F: RF>(n: usize, rms: &mut Rms<F, Vec<F::Float>>) -> Option<Bad>
where
    F::Float: Copy + Debug,
{
    rms.reset();
    let (win, sum) = rms.clone().into_parts();
    let w: Vec<f64> = win.iter().flat_map(|f| F::fl(*f)).collect();
    let s = F::fl(sum);
    if w.iter().any(|x| *x != 0.0) || s.iter().any(|x| *x != 0.0) {
        return Some(("rms.reset".into(), format!("{} N={n}: reset() left window {w:?} and running sum {s:?}, expected the all-zero state", F::NAME)));
    }
    let c = F::fl(rms.current());
    if c.iter().any(|x| !(*x >= 0.0) || *x > 1e-18) {
        return Some(("rms.reset".into(), format!("{} N={n}: current() after reset() = {c:?}", F::NAME)));
    }
    None
}

fn rough_path<F: RF>(n: usize, acts: &[Act]) -> Option<Bad>
where
    F::Float: Copy + Debug,
{
    let alpha = F::rough();
    let mut rms = Rms::<F, Vec<F::Float>>::new(Fixed::from(vec![<F::Float as Frame>::EQUILIBRIUM; n]));
    let mut last: VecDeque<Vec<f64>> = (0..n).map(|_| vec![0.0; F::CHANNELS]).collect();
    let mut t = 0;
    for a in acts.iter() {
        match a {
            Act::Next(i) => {
                let f = alpha[*i as usize];
                last.pop_front();
                last.push_back(f.amps());
                t += 1;
                if let Some(b) = rough_step::<F>(n, &mut rms, &last, f, t) {
                    return Some(b);
                }
            }
            Act::Reset => {
                if let Some(b) = rough_reset::<F>(n, &mut rms) {
                    return Some(b);
                }
                for x in last.iter_mut() {
                    *x = vec![0.0; F::CHANNELS];
                }
                t = 0;
            }
            _ => {}
        }
    }
    None
}

/// scale probe: a larger window driven by a long deterministic sequence over the EXACT alphabet
/// (every square and window sum still exact), checked with the same exact oracle as the merged
/// run, including reset in the middle
fn exact_long_run<F: RF>(n: usize, steps: usize) -> Option<Bad>
where
    F::Float: Copy + Debug,
{
    let alpha = F::alphabet();
    let mut s = Sys::<F>::new(n, true);
    for t in 0..steps {
        let a = if t == steps / 2 { Act::Reset } else if t % 11 == 10 { Act::Current } else if t % 5 == 4 { Act::NextSq(((t * 7 + t / 3) % alpha.len()) as u8) } else { Act::Next(((t * 7 + t / 3) % alpha.len()) as u8) };
        if let Err(e) = s.step(&alpha, a) {
            return Some((e.0, format!("window {n}, step {t} of a long exact-alphabet run: {}", e.1)));
        }
    }
    None
}

/// long deterministic non-dyadic run (one execution; labelled as such)
fn drift_run<F: RF>(n: usize, steps: usize) -> Option<Bad>
where
    F::Float: Copy + Debug,
{
    let mut rms = Rms::<F, Vec<F::Float>>::new(Fixed::from(vec![<F::Float as Frame>::EQUILIBRIUM; n]));
    let mut last: VecDeque<f64> = (0..n).map(|_| 0.0).collect();
    let mut sum_ref = 0.0f64; // recomputed exactly every step from the deque for small n, incrementally otherwise
    for t in 1..=steps {
        // burst structure: long loud stretches followed by near-silence (cancellation)
        let phase = (t / (3 * n + 5)) % 3;
        let x = ((t as f64 * 0.618_033_988_749_895).fract() * 2.0 - 1.0) * [1.0, 1e-3, 0.3][phase];
        let f = F::from_f64(x);
        let a = f.amps()[0];
        let old = last.pop_front().unwrap();
        last.push_back(a);
        if n <= 64 {
            sum_ref = last.iter().map(|x| x * x).sum();
        } else {
            sum_ref += a * a - old * old;
            if t % 4096 == 0 {
                sum_ref = last.iter().map(|x| x * x).sum();
            }
        }
        let ms_ref = sum_ref / n as f64;
        // small windows: both forms from the same state (one of them on a clone); large windows
        // (cloning 64 K frames per step is too slow): next_squared() + current() on even steps,
        // next() alone on odd steps
        let r = if n <= 2000 {
            catch(|| (F::fl(rms.clone().next_squared(f))[0], F::fl(rms.next(f))[0]))
        } else if t % 2 == 0 {
            catch(|| {
                let ms = F::fl(rms.next_squared(f))[0];
                (ms, F::fl(rms.current())[0])
            })
        } else {
            catch(|| {
                let out = F::fl(rms.next(f))[0];
                (ms_ref, out)
            })
        };
        let (ms_impl, out) = match r {
            Ok(x) => x,
            Err(p) => return Some(("rms.panic".into(), format!("{} N={n} long run step {t}: panicked: {p}", F::NAME))),
        };
        if n > 2000 && t % 2 == 1 {
            // next() alone: its square against the recomputed mean square, same drift bound (plus the sqrt tolerance)
            let b = 4.0 * (t + n) as f64 * F::EPS + 1e-12;
            let sq = out * out;
            let tol = if NOSTD { 0.15 * ms_ref + 1e-18 } else { 8.0 * F::EPS * ms_ref };
            if !(out >= 0.0) || (sq - ms_ref).abs() > b + tol {
                return Some(("rms.drift".into(), format!("{} N={n} long run step {t}: next()={out:e}, its square {sq:e} vs recomputed mean square {ms_ref:e} (bound {:e})", F::NAME, b + tol)));
            }
            continue;
        }
        let bound = 4.0 * (t + n) as f64 * F::EPS + 1e-12;
        if !(ms_impl >= 0.0) || (ms_impl - ms_ref).abs() > bound || !sqrt_ok(out, ms_impl, F::EPS) {
            return Some(("rms.drift".into(), format!("{} N={n} long run step {t}: next()={out:e} mean square {ms_impl:e} vs recomputed {ms_ref:e} (bound {bound:e})", F::NAME)));
        }
        if t % 65536 == 0 {
            guard::tick();
        }
    }
    None
}

/// FloatSample::sample_sqrt over non-negative finite inputs: libm-exact in the std build, within
/// 7% + 1e-18 in the no_std build (the property's tolerance for the approximation)
fn sqrt_sweep(ctx: &Ctx, thorough: bool) -> u64 {
    let pats: Vec<u32> = if thorough {
        (0..0x7f80_0000u32).collect()
    } else {
        let mut v = Vec::new();
        let mut b = 0u32;
        while b < 0x7f80_0000 {
            v.push(b);
            v.push(b | 0x7ff);
            b += 0x800;
        }
        v
    };
    let n = pats.len() as u64;
    pats.par_chunks(1 << 16).for_each(|ch| {
        let _guard_scope = guard::scoped(&json!({"sys":"sqrt","bits":ch[0]}).to_string());
        for &b in ch {
            let x = f32::from_bits(b);
            let got = x.sample_sqrt() as f64;
            let r = (x as f64).sqrt();
            let ok = if NOSTD { got >= 0.0 && (got - r).abs() <= 0.07 * r + 1e-18 } else { (got - r).abs() <= f32::EPSILON as f64 * r + 1e-300 };
            if !ok {
                ctx.violation("rms.sqrt", json!({"sys":"sqrt","bits":b}), format!("sample_sqrt({x:e}) = {got:e}, sqrt = {r:e} ({} build)", if NOSTD { "no_std" } else { "std" }), None);
                break;
            }
            // f64: the same magnitude and a perturbed mantissa
            for xd in [x as f64, (x as f64) * 1.000_000_123_456_789, (x as f64) * 1e-30, (x as f64) * 1e30] {
                let g = xd.sample_sqrt();
                let r = xd.sqrt();
                let ok = if NOSTD { g >= 0.0 && (g - r).abs() <= 0.07 * r + 1e-18 } else { (g - r).abs() <= f64::EPSILON * r + 1e-300 };
                if !ok {
                    ctx.violation("rms.sqrt", json!({"sys":"sqrt64","bits":xd.to_bits().to_string()}), format!("f64 sample_sqrt({xd:e}) = {g:e}, sqrt = {r:e} ({} build)", if NOSTD { "no_std" } else { "std" }), None);
                    return;
                }
            }
        }
        guard::leave();
    });
    5 * n
}

// ------------------------------------------------------------ signal adaptor
#[cfg(not(verif_nostd))]
fn adaptor_cases(ctx: &Ctx) -> u64 {
    use checks::probe::Probe;
    use dasp_signal::{rms::SignalRms, Signal};
    let alpha = <[f32; 2] as RF>::alphabet();
    let k = alpha.len();
    let mut evals = 0;
    for n in 1..=3usize {
        for code in 0..k.pow(4) {
            let idx: Vec<usize> = (0..4).map(|j| (code / k.pow(j)) % k).collect();
            let frames: Vec<[f32; 2]> = idx.iter().map(|&i| alpha[i]).collect();
            let case = json!({"sys":"adaptor","n":n,"frames":idx});
            let _guard_scope = guard::scoped(&case.to_string());
            evals += 1;
            let run = || -> Option<String> {
                let (probe, c) = Probe::new(frames.clone());
                let mut sig = probe.rms(Fixed::from(vec![[0.0f32; 2]; n]));
                let mut direct = Rms::<[f32; 2], Vec<[f32; 2]>>::new(Fixed::from(vec![[0.0f32; 2]; n]));
                for t in 0..6 {
                    let exh = sig.is_exhausted();
                    if exh != (t >= 4) {
                        return Some(format!("rms adaptor N={n}: is_exhausted()={exh} before output {t} of a 4-frame source"));
                    }
                    let a = sig.next();
                    let f = frames.get(t).copied().unwrap_or([0.0; 2]);
                    let b = direct.next(f);
                    if a != b {
                        return Some(format!("rms adaptor N={n}: output {t} = {a:?}, detector fed the same frames gives {b:?}"));
                    }
                    if c.pulls() != t + 1 {
                        return Some(format!("rms adaptor N={n}: {} source pulls after {} outputs", c.pulls(), t + 1));
                    }
                }
                None
            };
            if let Some(m) = run() {
                ctx.violation("rms.adaptor", case, m, Some(&run));
            }
        }
    }
    evals
}
#[cfg(verif_nostd)]
fn adaptor_cases(_ctx: &Ctx) -> u64 {
    0
}


// ------------------------------------------------ every sample format (scale probe over formats)
/// All 14 sample formats as mono frames `[S; 1]`, windows 1..=3, every history of length N+2 over
/// nine structured values (both extremes, equilibrium and its neighbours at distance 1 and 100, the
/// quarter-scale points). Reference: the exact signed amplitude in f64. Tolerance: the running-sum
/// algorithm commits at most (N+2) roundings of relative size eps per step, each on a quantity
/// bounded by N times the largest square seen since construction, so the mean square is within
/// 4 (t+N) eps max_square of the truth; a quiet history is therefore judged against its own scale.
const SWEEP_FORMATS: [&str; 14] = ["i8", "u8", "i16", "u16", "I24", "U24", "i32", "u32", "I48", "U48", "i64", "u64", "f32", "f64"];
fn sweep_letters(bits: u32) -> Vec<i128> {
    let h = 1i128 << (bits - 1);
    vec![0, 1, -1, 100.min(h - 1), -100.max(-h), h / 2 + 1, -h / 2, h - 1, -h]
}
fn fmt_sweep_case(fmt: usize, n: usize, letters: &[u8]) -> Option<Bad> {
    macro_rules! run {
        ($S:ty, $FL:ty, $bits:expr, $mk:expr, $amp:expr) => {{
            let mk = $mk;
            let amp = $amp;
            let eps = <$FL>::EPSILON as f64;
            let vals: Vec<($S, f64)> = sweep_letters($bits).into_iter().map(|a| { let s: $S = mk(a); (s, amp(a)) }).collect();
            let mut rms = Rms::<[$S; 1], Vec<[$FL; 1]>>::new(Fixed::from(vec![[0.0 as $FL; 1]; n]));
            let mut last: VecDeque<f64> = (0..n).map(|_| 0.0).collect();
            let mut maxsq = 0.0f64;
            for (t, &l) in letters.iter().enumerate() {
                let (s, a) = vals[l as usize % vals.len()];
                last.pop_front();
                last.push_back(a);
                maxsq = maxsq.max(a * a);
                let ms_ref: f64 = last.iter().map(|x| x * x).sum::<f64>() / n as f64;
                let ms_impl = rms.clone().next_squared([s])[0] as f64;
                let out = rms.next([s])[0] as f64;
                let bound = 4.0 * (t + 1 + n) as f64 * eps * maxsq + 1e-300;
                if !(ms_impl >= 0.0) || (ms_impl - ms_ref).abs() > bound {
                    return Some(("rms.format".into(), format!("[{};1] N={n} history (signed amplitudes) {:?}: after frame {t} next_squared() = {ms_impl:e}, mean square of the last N frames = {ms_ref:e} (bound {bound:e}, largest square so far {maxsq:e})", SWEEP_FORMATS[fmt], letters.iter().map(|&l| sweep_letters($bits)[l as usize % 9]).collect::<Vec<_>>())));
                }
                if !sqrt_ok(out, ms_impl, eps) {
                    return Some(("rms.format".into(), format!("[{};1] N={n}: after frame {t} next() = {out:e} but next_squared() = {ms_impl:e}", SWEEP_FORMATS[fmt])));
                }
            }
            None
        }};
    }
    use dasp_sample::{I24, I48, U24, U48};
    match fmt {
        0 => run!(i8, f32, 8, |a: i128| a as i8, |a: i128| a as f64 / 128.0),
        1 => run!(u8, f32, 8, |a: i128| (a + 128) as u8, |a: i128| a as f64 / 128.0),
        2 => run!(i16, f32, 16, |a: i128| a as i16, |a: i128| a as f64 / 32768.0),
        3 => run!(u16, f32, 16, |a: i128| (a + 32768) as u16, |a: i128| a as f64 / 32768.0),
        4 => run!(I24, f32, 24, |a: i128| I24::new(a as i32).unwrap(), |a: i128| a as f64 / 8388608.0),
        5 => run!(U24, f32, 24, |a: i128| U24::new((a + 8388608) as i32).unwrap(), |a: i128| a as f64 / 8388608.0),
        6 => run!(i32, f32, 32, |a: i128| a as i32, |a: i128| a as f64 / 2147483648.0),
        7 => run!(u32, f32, 32, |a: i128| (a + 2147483648) as u32, |a: i128| a as f64 / 2147483648.0),
        8 => run!(I48, f64, 48, |a: i128| I48::new(a as i64).unwrap(), |a: i128| a as f64 / 140737488355328.0),
        9 => run!(U48, f64, 48, |a: i128| U48::new((a + 140737488355328) as i64).unwrap(), |a: i128| a as f64 / 140737488355328.0),
        10 => run!(i64, f64, 64, |a: i128| a as i64, |a: i128| a as f64 / 9223372036854775808.0),
        11 => run!(u64, f64, 64, |a: i128| (a + 9223372036854775808) as u64, |a: i128| a as f64 / 9223372036854775808.0),
        // floats: the same nine points scaled into [-1, 1] from a 24-bit grid
        12 => run!(f32, f32, 24, |a: i128| (a as f64 / 8388608.0) as f32, |a: i128| a as f64 / 8388608.0),
        _ => run!(f64, f64, 24, |a: i128| a as f64 / 8388608.0, |a: i128| a as f64 / 8388608.0),
    }
}

fn fmt_sweep(ctx: &Ctx) -> u64 {
    let mut jobs: Vec<(usize, usize, u8)> = Vec::new();
    for fmt in 0..14 {
        for n in 1..=3usize {
            for first in 0..9u8 {
                jobs.push((fmt, n, first));
            }
        }
    }
    let evals = AtomicU64::new(0);
    jobs.par_iter().for_each(|&(fmt, n, first)| {
        let len = n + 2;
        let mut fps = Vec::new();
        for code in 0..9usize.pow(len as u32 - 1) {
            let mut letters = vec![first];
            let mut c = code;
            for _ in 1..len {
                letters.push((c % 9) as u8);
                c /= 9;
            }
            let case = json!({"sys":"fmt_sweep","fmt":fmt,"format":SWEEP_FORMATS[fmt],"n":n,"letters":letters});
            let _guard_scope = guard::scoped(&case.to_string());
            evals.fetch_add(len as u64, Relaxed);
            match catch(|| fmt_sweep_case(fmt, n, &letters)) {
                Ok(None) => fps.push(common::fnv_str(&format!("fs{fmt}/{n}/{letters:?}"))),
                Ok(Some((k, m))) => ctx.violation(&k, case, m, Some(&|| fmt_sweep_case(fmt, n, &letters).map(|e| e.1))),
                Err(p) => ctx.violation("rms.panic", case, format!("[{};1] N={n} letters {letters:?}: panicked: {p}", SWEEP_FORMATS[fmt]), None),
            }
        }
        ctx.observe_many(fps);
    });
    evals.load(Relaxed)
}

fn dispatch_replay(v: &Value) -> Option<String> {
    if v["sys"] == "fmt_sweep" {
        let letters: Vec<u8> = v["letters"].as_array().map(|a| a.iter().map(|x| x.as_u64().unwrap_or(0) as u8).collect()).unwrap_or_default();
        return fmt_sweep_case(v["fmt"].as_u64().unwrap_or(0) as usize, v["n"].as_u64().unwrap_or(1) as usize, &letters).map(|e| format!("{}: {}", e.0, e.1));
    }
    let acts: Vec<Act> = v["actions"].as_array().map(|a| a.iter().filter_map(|x| Act::parse(x.as_str()?)).collect()).unwrap_or_default();
    let n = v["n"].as_u64().unwrap_or(1) as usize;
    let rough = v["alphabet"] == "rough";
    macro_rules! go {
        ($F:ty) => {
            if rough {
                rough_path::<$F>(n, &acts).map(|e| format!("{}: {}", e.0, e.1))
            } else {
                run_path::<$F>(n, &<$F as RF>::alphabet(), true, &acts).err().map(|e| format!("{}: {}", e.0, e.1))
            }
        };
    }
    match v["frame"].as_str().unwrap_or("") {
        "[f32;1]" => go!([f32; 1]),
        "[f32;2]" => go!([f32; 2]),
        "[f64;1]" => go!([f64; 1]),
        "[f64;2]" => go!([f64; 2]),
        "[i16;2]" => go!([i16; 2]),
        "[u8;1]" => go!([u8; 1]),
        _ => Some("unknown frame type".into()),
    }
}

fn main() {
    let _final_guard = common::FinalGuard::new();
    let ctx: &'static Ctx = Ctx::leak("C11", if NOSTD { "no_std" } else { "std" });
    // the build must be what the part name says
    let approx = 2.0f32.sample_sqrt() != 2.0f32.sqrt() || 2.0f64.sample_sqrt() != 2.0f64.sqrt();
    if approx != NOSTD {
        ctx.machinery_failure(&format!("build configuration mismatch: cfg(verif_nostd)={NOSTD} but sample_sqrt is {}", if approx { "the approximation" } else { "libm sqrt" }));
    }
    if let Some(v) = ctx.replay_case() {
        let _guard_scope = guard::scoped(&v.to_string());
        ctx.finish_replay(catch(|| dispatch_replay(&v)).unwrap_or_else(|p| Some(format!("panic: {p}"))));
    }
    let nmax = ctx.tier.pick(3, 4);
    ctx.rule(&format!("build={}: merged — stateright BFS to fixpoint over the real Rms detector, state = (first, window contents, running sum) read with clone().into_parts(), rebuilt per transition by replaying the BFS witness history on a fresh detector; window N=1..={nmax}; frames [f32;1] [f32;2] [f64;1] [i16;2] [u8;1]; exact dyadic alphabets (every square and window sum exact); actions next(a)/next_squared(a)/current()/reset(); oracle: exact mean of the squares of the last N inputs, sqrt within {} , reset() restores the all-zero state (window and sum read back); distinct by (state, action, observation)", if NOSTD {"no_std"} else {"std"}, if NOSTD {"7% + 1e-18 (approximate sqrt)"} else {"2 ulp"}));
    ctx.rule("cancellation — unmerged DFS over every history of length <= 2N+2 over the non-dyadic alphabet {0,1e-9,1e-4,1e-3,0.1,0.3,0.7,1.0} plus reset() after any prefix, f32 and f64, mono and stereo (the two channels carry different letters), N=1..=3: mean square within 4(t+N)eps of the f64 recomputation, never negative or NaN, next() == sqrt(next_squared()) within the build's sqrt tolerance, reset() restores the all-zero state (window and running sum read back) even when rounding has absorbed small squares");
    ctx.rule("drift — one long deterministic burst/silence run per (format, N in {1,7,64,1000,1024,4096,44100,48000,65535,65536,65537}), at least four windows long; labelled single executions");
    if !NOSTD {
        ctx.rule("adaptor — signal.rms(ring) over every 4-frame source over the [f32;2] alphabet, N=1..=3, 6 outputs: bit-identical to the detector fed the same frames, one source pull per output, is_exhausted forwarded");
    }

    // merged instances in parallel
    let mut jobs: Vec<(usize, usize)> = Vec::new();
    for t in 0..5 {
        for n in 1..=nmax {
            jobs.push((t, n));
        }
    }
    let res: Vec<(usize, usize, usize)> = jobs
        .par_iter()
        .map(|&(t, n)| match t {
            0 => merged::<[f32; 1]>(ctx, n),
            1 => merged::<[f32; 2]>(ctx, n),
            2 => merged::<[f64; 1]>(ctx, n),
            3 => merged::<[i16; 2]>(ctx, n),
            _ => merged::<[u8; 1]>(ctx, n),
        })
        .collect();
    let uniq: usize = res.iter().map(|r| r.0).sum();
    ctx.add_states(uniq as u64);
    ctx.add_transitions(TRANSITIONS.load(Relaxed));
    ctx.add_evals(TRANSITIONS.load(Relaxed));
    ctx.set("merged_model_instances", json!(jobs.len()));
    ctx.set("merged_unique_states", json!(uniq));
    ctx.set("merged_generated_states", json!(res.iter().map(|r| r.1).sum::<usize>()));
    ctx.set("merged_max_depth", json!(res.iter().map(|r| r.2).max()));

    // cancellation DFS
    guard::set_hang_secs(600);
    let cjobs: Vec<(usize, usize)> = (0..4).flat_map(|t| (1..=3).map(move |n| (t, n))).collect();
    let counts: Vec<u64> = cjobs
        .par_iter()
        .map(|&(t, n)| {
            let mut c = 0u64;
            let fname = ["[f32;1]", "[f64;1]", "[f32;2]", "[f64;2]"][t];
            let _guard_scope = guard::scoped(&json!({"sys":"rms","frame": fname,"n":n,"alphabet":"rough","actions":[],"note":"cancellation DFS root"}).to_string());
            let depth = (2 * n + 2).min(ctx.tier.pick(7, 8));
            match t {
                0 => cancel_dfs::<[f32; 1]>(ctx, n, depth, &mut c),
                1 => cancel_dfs::<[f64; 1]>(ctx, n, depth, &mut c),
                2 => cancel_dfs::<[f32; 2]>(ctx, n, depth, &mut c),
                _ => cancel_dfs::<[f64; 2]>(ctx, n, depth, &mut c),
            }
            guard::leave();
            c
        })
        .collect();
    let csteps: u64 = counts.iter().sum();
    ctx.add_transitions(csteps);
    ctx.add_evals(csteps);
    ctx.set("cancellation_steps", json!(csteps));

    // drift runs
    let steps = ctx.tier.pick(100_000, 1_000_000);
    // (windows around 2^16: an index or counter kept in 16 bits would wrap; those runs last 4 windows)
    let djobs: Vec<(usize, usize)> = (0..4).flat_map(|t| [1usize, 7, 64, 1000, 1024, 4096, 44100, 48000, 65535, 65536, 65537].into_iter().map(move |n| (t, n))).collect();
    djobs.par_iter().for_each(|&(t, n)| {
        let name = ["[f32;1]", "[f64;1]", "[i16;2]", "[u8;1]"][t];
        let steps = steps.max(4 * n);
        let case = json!({"sys":"drift","frame":name,"n":n,"steps":steps});
        let _guard_scope = guard::scoped(&case.to_string());
        let r = match t {
            0 => drift_run::<[f32; 1]>(n, steps),
            1 => drift_run::<[f64; 1]>(n, steps),
            2 => drift_run::<[i16; 2]>(n, steps),
            _ => drift_run::<[u8; 1]>(n, steps),
        };
        if let Some((k, m)) = r {
            ctx.violation(&k, case, m, None);
        }
        guard::leave();
    });
    ctx.add_evals((djobs.len() * steps) as u64);
    // scale probes: windows 5, 8, 16, 64 with the exact oracle
    let sjobs: Vec<(usize, usize)> = (0..5).flat_map(|t| [5usize, 8, 16, 64].into_iter().map(move |n| (t, n))).collect();
    sjobs.par_iter().for_each(|&(t, n)| {
        let name = ["[f32;1]", "[f32;2]", "[f64;1]", "[i16;2]", "[u8;1]"][t];
        let case = json!({"sys":"exact_long","frame":name,"n":n});
        let _guard_scope = guard::scoped(&case.to_string());
        let steps = 6 * n + 40;
        let r = match t {
            0 => exact_long_run::<[f32; 1]>(n, steps),
            1 => exact_long_run::<[f32; 2]>(n, steps),
            2 => exact_long_run::<[f64; 1]>(n, steps),
            3 => exact_long_run::<[i16; 2]>(n, steps),
            _ => exact_long_run::<[u8; 1]>(n, steps),
        };
        if let Some((k, m)) = r {
            ctx.violation(&k, case, m, None);
        }
        guard::leave();
    });
    ctx.add_evals(sjobs.iter().map(|j| 6 * j.1 as u64 + 40).sum());
    ctx.rule("scale probes — windows 5, 8, 16 and 64, five frame formats, a long deterministic sequence over the exact alphabet with a reset in the middle, same exact oracle as the merged run (single executions per window, labelled)");
    ctx.set("drift_runs", json!(djobs.len()));
    ctx.set("drift_steps_each", json!(steps));

    let fs = fmt_sweep(ctx);
    ctx.add_evals(fs);
    ctx.set("format_sweep_steps", json!(fs));
    ctx.rule("formats — all 14 sample formats as mono frames, N=1..=3, every history of length N+2 over nine structured values (MIN, MAX, equilibrium, equilibrium +-1 and +-100, the quarter-scale points): mean square within 4(t+N) eps x (largest square seen so far) of the exact-amplitude f64 reference (a quiet history is judged on its own scale), never negative or NaN, next() == sqrt(next_squared()) within the build's sqrt tolerance");
    let sq = sqrt_sweep(ctx, ctx.thorough());
    ctx.add_evals(sq);
    ctx.set("sqrt_sweep_evaluations", json!(sq));
    ctx.rule("sqrt — FloatSample::sample_sqrt over every non-negative finite f32 (thorough) / every exponent x 2^12 mantissa patterns (quick) and 4 f64 values derived from each: libm-exact (std) or within 7% + 1e-18 (no_std)");
    let ad = adaptor_cases(ctx);
    ctx.add_evals(ad);
    ctx.set("adaptor_cases", json!(ad));
    ctx.set("exhaustive", json!(true));
    ctx.set("exhaustive_scope", json!(format!("all reachable detector states over the exact alphabets for N<=({nmax}) (histories of any length over those alphabets); non-dyadic inputs only to depth 2N+2 and in single long runs")));
    ctx.sample(case_json("[i16;2]", 3, "exact", &[Act::Next(4), Act::Next(1), Act::Reset, Act::NextSq(3), Act::Current]));
    ctx.sample(case_json("[f32;1]", 2, "rough", &[Act::Next(6), Act::Next(6), Act::Next(1), Act::Next(0), Act::Next(0)]));
    ctx.assume(if NOSTD { "no_std build: sample_sqrt is the exponent-halving approximation, tolerance 7% relative + 1e-18 as the property states" } else { "std build: libm sqrt is correctly rounded; tolerance 2 ulp of the float companion" });
    ctx.assume("f64 recomputation of the mean square as reference for non-dyadic inputs (error bound 4(t+N)eps covers the reference's own rounding)");
    ctx.finish();
}
