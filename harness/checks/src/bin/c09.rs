//! C09 — graph traversal: every small directed multigraph x output node x
//! container, instrumented nodes, independent reachability oracle.

use common::{catch, guard, json, Ctx, Value};
use dasp_graph::{Buffer, Input, Node, NodeData, Processor};
use petgraph::graph::{Graph, NodeIndex};
use petgraph::stable_graph::StableGraph;
use rayon::prelude::*;
use std::cell::RefCell;
use std::rc::Rc;
use std::sync::atomic::{AtomicU64, Ordering::Relaxed};

// ------------------------------------------------------------------ probe node
#[derive(Clone, Debug)]
struct Rec {
    node: usize,
    call: u32,
    own_ptr: usize,
    inputs: Vec<(usize, usize, f32, f32)>, // (ptr, len, value seen, call# seen)
}

struct ProbeNode {
    id: usize,
    log: Rc<RefCell<Vec<Rec>>>,
    call: Rc<RefCell<u32>>,
}

fn weight(id: usize) -> f32 {
    // 3^id: path-count multiples stay exact in f32 for every enumerated graph; the large scale-probe
    // graphs (chains, stars, trees on hundreds of nodes) use weight 1 beyond node 13 so that every
    // partial sum stays an integer below 2^24
    if id < 14 {
        3u32.pow(id as u32) as f32
    } else {
        1.0
    }
}

impl Node for ProbeNode {
    fn process(&mut self, inputs: &[Input], output: &mut [Buffer]) {
        let call = *self.call.borrow();
        let mut rec = Rec { node: self.id, call, own_ptr: output.as_ptr() as usize, inputs: Vec::new() };
        let mut sum = weight(self.id);
        for i in inputs {
            let b = i.buffers();
            let (v, c) = if b.is_empty() { (0.0, -1.0) } else { (b[0][0], b[0][1]) };
            rec.inputs.push((b.as_ptr() as usize, b.len(), v, c));
            sum += v;
        }
        if let Some(o) = output.first_mut() {
            o[0] = sum;
            o[1] = call as f32;
            o[2] = self.id as f32;
        }
        self.log.borrow_mut().push(rec);
    }
}

// ------------------------------------------------------------------ containers
type G1 = Graph<NodeData<ProbeNode>, ()>;
type G2 = StableGraph<NodeData<ProbeNode>, ()>;

/// A graph case: n nodes, edge multiplicities, output node, container variant.
#[derive(Clone, Debug)]
struct Case {
    n: usize,
    mult: Vec<u8>, // n*n, mult[a*n+b] = number of edges a -> b
    out: usize,
    cont: u8, // 0 Graph, 1 StableGraph, 2.. StableGraph with vacancies (pattern cont-2)
    /// the order in which the edges are added (parallel edges need not be adjacent); None: sorted
    order: Option<Vec<(usize, usize)>>,
}

impl Case {
    fn to_json(&self) -> Value {
        let mut v = json!({"sys":"graph","n":self.n,"mult":self.mult,"out":self.out,"cont":self.cont});
        if let Some(o) = &self.order {
            v["order"] = json!(o.iter().map(|&(a, b)| vec![a, b]).collect::<Vec<_>>());
        }
        v
    }
    fn from_json(v: &Value) -> Option<Case> {
        Some(Case {
            n: v["n"].as_u64()? as usize,
            mult: v["mult"].as_array()?.iter().map(|x| x.as_u64().map(|y| y as u8)).collect::<Option<Vec<_>>>()?,
            out: v["out"].as_u64()? as usize,
            cont: v["cont"].as_u64()? as u8,
            order: v["order"].as_array().map(|a| a.iter().filter_map(|e| Some((e[0].as_u64()? as usize, e[1].as_u64()? as usize))).collect()),
        })
    }
    fn edges(&self) -> Vec<(usize, usize)> {
        if let Some(o) = &self.order {
            return o.clone();
        }
        let mut e = Vec::new();
        for a in 0..self.n {
            for b in 0..self.n {
                for _ in 0..self.mult[a * self.n + b] {
                    e.push((a, b));
                }
            }
        }
        e
    }
}

/// vacancy patterns for the stable graph: where dummy nodes are inserted
/// (and later removed) relative to the real ones. bit i = a dummy before real
/// node i; bit n = a dummy after the last.
fn vacancy_patterns(n: usize) -> Vec<u16> {
    // before the first, between (after the first), after the last, and all of them
    let mut v = vec![1u16, 1 << n, (1 << (n + 1)) - 1];
    if n >= 2 {
        v.push(2);
    }
    v
}

struct Built<G> {
    g: G,
    ix: Vec<NodeIndex>,
    log: Rc<RefCell<Vec<Rec>>>,
    call: Rc<RefCell<u32>>,
}

fn mk_node(id: usize, log: &Rc<RefCell<Vec<Rec>>>, call: &Rc<RefCell<u32>>) -> NodeData<ProbeNode> {
    NodeData::new1(ProbeNode { id, log: log.clone(), call: call.clone() })
}

fn build_graph(c: &Case) -> Built<G1> {
    let log = Rc::new(RefCell::new(Vec::new()));
    let call = Rc::new(RefCell::new(0));
    let mut g = G1::with_capacity(c.n, 8);
    let ix: Vec<NodeIndex> = (0..c.n).map(|i| g.add_node(mk_node(i, &log, &call))).collect();
    for (a, b) in c.edges() {
        g.add_edge(ix[a], ix[b], ());
    }
    Built { g, ix, log, call }
}

fn build_stable(c: &Case, vac: Option<u16>) -> Built<G2> {
    let log = Rc::new(RefCell::new(Vec::new()));
    let call = Rc::new(RefCell::new(0));
    let mut g = G2::with_capacity(c.n + 4, 8);
    let mut ix = Vec::new();
    let mut dummies = Vec::new();
    let pat = vac.unwrap_or(0);
    for i in 0..c.n {
        if i < 16 && pat & (1 << i) != 0 {
            dummies.push(g.add_node(mk_node(99, &log, &call)));
        }
        ix.push(g.add_node(mk_node(i, &log, &call)));
    }
    if c.n < 16 && pat & (1 << c.n) != 0 {
        dummies.push(g.add_node(mk_node(99, &log, &call)));
    }
    // dummies are wired into the graph before they are removed, so removal
    // also has edges to clean up
    for (k, d) in dummies.iter().enumerate() {
        let t = ix[k % c.n];
        g.add_edge(*d, t, ());
        g.add_edge(t, *d, ());
    }
    for (a, b) in c.edges() {
        g.add_edge(ix[a], ix[b], ());
    }
    for d in dummies {
        g.remove_node(d);
    }
    Built { g, ix, log, call }
}

// ------------------------------------------------------------------ the oracle
struct Expect {
    upstream: Vec<bool>,       // has a path to out (or is out)
    acyclic: bool,             // upstream subgraph (self-loops count as cycles)
    value: Vec<f64>,           // functional evaluation when acyclic
    in_neigh: Vec<Vec<usize>>, // multiset of in-neighbours m != n, one per edge
    sources: Vec<usize>,
    sinks: Vec<usize>,
}

fn expect(c: &Case) -> Expect {
    let n = c.n;
    let m = |a: usize, b: usize| c.mult[a * n + b] as usize;
    let mut up = vec![false; n];
    up[c.out] = true;
    let mut stack = vec![c.out];
    while let Some(x) = stack.pop() {
        for a in 0..n {
            if m(a, x) > 0 && !up[a] {
                up[a] = true;
                stack.push(a);
            }
        }
    }
    // acyclicity of the upstream subgraph by repeated removal of nodes without upstream predecessors
    let mut alive: Vec<bool> = up.clone();
    let mut order = Vec::new();
    loop {
        let mut progressed = false;
        for x in 0..n {
            if alive[x] && (0..n).all(|a| !(alive[a] && m(a, x) > 0)) {
                alive[x] = false;
                order.push(x);
                progressed = true;
            }
        }
        if !progressed {
            break;
        }
    }
    let acyclic = !alive.iter().any(|&a| a);
    let mut value = vec![0.0f64; n];
    if acyclic {
        for &x in &order {
            let mut v = weight(x) as f64;
            for a in 0..n {
                if a != x {
                    v += m(a, x) as f64 * value[a];
                }
            }
            value[x] = v;
        }
    }
    let in_neigh = (0..n)
        .map(|x| {
            let mut v = Vec::new();
            for a in 0..n {
                if a != x {
                    for _ in 0..m(a, x) {
                        v.push(a);
                    }
                }
            }
            v
        })
        .collect();
    let sources = (0..n).filter(|&x| (0..n).all(|a| m(a, x) == 0)).collect();
    let sinks = (0..n).filter(|&x| (0..n).all(|b| m(x, b) == 0)).collect();
    Expect { upstream: up, acyclic, value, in_neigh, sources, sinks }
}

type Bad = (String, String);

/// Check the log of one process call.
fn check_call(c: &Case, e: &Expect, log: &[Rec], ptrs: &[(usize, usize)], out_val: f32, call: u32) -> Result<(), Bad> {
    let n = c.n;
    let mut seen = vec![0usize; n];
    for r in log {
        if r.node >= n {
            return Err(("graph.visit".into(), format!("a removed node (id {}) was processed", r.node)));
        }
        seen[r.node] += 1;
    }
    for x in 0..n {
        let want = e.upstream[x] as usize;
        if seen[x] != want {
            return Err((
                "graph.visit".into(),
                format!("call {call}: node {x} processed {} times, expected {want} (it {} a path to output node {})", seen[x], if want == 1 { "has" } else { "has no" }, c.out),
            ));
        }
    }
    let mut done = vec![false; n];
    for r in log {
        let x = r.node;
        if r.own_ptr != ptrs[x].0 {
            return Err(("graph.buffers".into(), format!("call {call}: node {x} was handed buffers at a different address than graph[{x}].buffers")));
        }
        // inputs: multiset of in-neighbours, identified by buffer pointer
        let mut got: Vec<usize> = Vec::new();
        for &(p, l, _, _) in &r.inputs {
            if p == ptrs[x].0 {
                return Err(("graph.alias".into(), format!("call {call}: node {x} was given its own buffers as an input")));
            }
            match (0..n).find(|&m| ptrs[m].0 == p) {
                Some(m) if ptrs[m].1 == l => got.push(m),
                _ => return Err(("graph.inputs".into(), format!("call {call}: node {x} received an input that is no node's buffer slice (ptr/len mismatch)"))),
            }
        }
        got.sort();
        if got != e.in_neigh[x] {
            return Err(("graph.inputs".into(), format!("call {call}: node {x} received inputs from {got:?}, expected one per incoming edge from another node: {:?}", e.in_neigh[x])));
        }
        if e.acyclic {
            for (k, &(_, _, _, cseen)) in r.inputs.iter().enumerate() {
                if cseen != call as f32 {
                    return Err(("graph.order".into(), format!("call {call}: node {x} was processed before its input #{k} (input buffer carried call number {cseen})")));
                }
            }
            for &m in &e.in_neigh[x] {
                if !done[m] {
                    return Err(("graph.order".into(), format!("call {call}: node {x} processed before node {m} which feeds it")));
                }
            }
        }
        done[x] = true;
    }
    // (all weights are positive integers, so every partial sum is exact in f32 while the total is below 2^24)
    if e.acyclic && e.value[c.out] < 16_777_216.0 && out_val as f64 != e.value[c.out] {
        return Err(("graph.value".into(), format!("call {call}: output buffer holds {out_val}, functional evaluation gives {}", e.value[c.out])));
    }
    Ok(())
}

fn sorted(mut v: Vec<usize>) -> Vec<usize> {
    v.sort();
    v
}

macro_rules! run_on {
    ($b:expr, $p:expr, $c:expr, $e:expr) => {{
        let b = $b;
        let c: &Case = $c;
        let e: &Expect = $e;
        // sources / sinks
        let id_of = |ix: NodeIndex| b.ix.iter().position(|&i| i == ix);
        let src: Vec<Option<usize>> = dasp_graph::sources(&&b.g).map(id_of).collect();
        let snk: Vec<Option<usize>> = dasp_graph::sinks(&&b.g).map(id_of).collect();
        for (name, got, want) in [("sources", &src, &e.sources), ("sinks", &snk, &e.sinks)] {
            if got.iter().any(|x| x.is_none()) || sorted(got.iter().flatten().copied().collect()) != *want || got.len() != want.len() {
                return Err((
                    format!("graph.{name}"),
                    format!("{name}() yielded {:?} (None = an index that is not a node of the graph), expected exactly nodes {:?}", got, want),
                ));
            }
        }
        // larger graphs (scale probes) are processed many times in a row: soak
        for call in 1..=(if c.n >= 5 { 60u32 } else { 2 }) {
            *b.call.borrow_mut() = call;
            b.log.borrow_mut().clear();
            let out_ix = b.ix[c.out];
            if let Err(p) = catch(|| $p.process(&mut b.g, out_ix)) {
                return Err(("graph.panic".into(), format!("process panicked: {p}")));
            }
            let ptrs: Vec<(usize, usize)> = b.ix.iter().map(|&i| (b.g[i].buffers.as_ptr() as usize, b.g[i].buffers.len())).collect();
            let out_val = b.g[out_ix].buffers[0][0];
            let log = b.log.borrow().clone();
            check_call(c, e, &log, &ptrs, out_val, call)?;
        }
        Ok(())
    }};
}

fn run_case(c: &Case, p1: &mut Processor<G1>, p2: &mut Processor<G2>) -> Result<(), Bad> {
    let e = expect(c);
    match c.cont {
        0 => {
            let mut b = build_graph(c);
            run_on!(&mut b, p1, c, &e)
        }
        1 => {
            let mut b = build_stable(c, None);
            run_on!(&mut b, p2, c, &e)
        }
        k => {
            let pats = vacancy_patterns(c.n);
            let mut b = build_stable(c, Some(pats[(k as usize - 2) % pats.len()]));
            run_on!(&mut b, p2, c, &e)
        }
    }
}

/// The same oracle on a graph processed through `GraphNode` (a nested graph used as one node of an
/// outer graph): node 0 is declared as its input port but the outer graph feeds it nothing, so the
/// nested graph must be processed exactly as by `Processor::process`.
fn nested_case(c: &Case) -> Result<(), Bad> {
    use dasp_graph::node::GraphNode;
    let e = expect(c);
    let b = build_graph(c);
    let Built { g, ix, log, call } = b;
    let gn: GraphNode<G1, ProbeNode> = GraphNode { processor: Processor::with_capacity(c.n), graph: g, input_nodes: vec![ix[0]], output_node: ix[c.out], node_type: std::marker::PhantomData };
    let mut og: Graph<NodeData<GraphNode<G1, ProbeNode>>, ()> = Graph::with_capacity(1, 0);
    let o = og.add_node(NodeData::new1(gn));
    let mut p = Processor::<Graph<NodeData<GraphNode<G1, ProbeNode>>, ()>>::with_capacity(1);
    for k in 1..=2u32 {
        *call.borrow_mut() = k;
        log.borrow_mut().clear();
        if let Err(pn) = catch(|| p.process(&mut og, o)) {
            return Err(("graph.panic".into(), format!("nested in a GraphNode: process panicked: {pn}")));
        }
        let inner = &og[o].node.graph;
        let ptrs: Vec<(usize, usize)> = ix.iter().map(|&i| (inner[i].buffers.as_ptr() as usize, inner[i].buffers.len())).collect();
        let out_val = inner[ix[c.out]].buffers[0][0];
        let lg = log.borrow().clone();
        check_call(c, &e, &lg, &ptrs, out_val, k).map_err(|(key, m)| (key, format!("nested in a GraphNode (node 0 declared as an unconnected input port): {m}")))?;
        if og[o].buffers[0][0] != out_val {
            return Err(("graph.nested".into(), format!("nested in a GraphNode: the outer node's buffer holds {}, the inner output node's {out_val}", og[o].buffers[0][0])));
        }
    }
    Ok(())
}

/// Run `c` on fresh processors that have first processed `hist` (results of the history ignored):
/// the property quantifies over repeated process calls on the same processor, so a violation may
/// need what the processor did before.
fn run_with_history(hist: &[Case], c: &Case) -> Option<String> {
    let mut p1 = Processor::<G1>::with_capacity(8);
    let mut p2 = Processor::<G2>::with_capacity(8);
    for h in hist {
        let _ = catch(|| run_case(h, &mut p1, &mut p2));
    }
    run_case(c, &mut p1, &mut p2).err().map(|e| e.1)
}

/// the shortest suffix of the processor's history (lengths 0, 1, 2, 4, ...) with which the
/// violation reproduces on fresh processors
fn minimal_history(hist: &[Case], c: &Case) -> Vec<Case> {
    let mut k = 0usize;
    loop {
        let suffix = &hist[hist.len() - k.min(hist.len())..];
        if run_with_history(suffix, c).is_some() || k >= hist.len() {
            return suffix.to_vec();
        }
        k = if k == 0 { 1 } else { k * 2 };
    }
}

/// scale probe: structured graphs on hundreds of nodes (compact case representation)
const BIG_FAMILIES: [&str; 8] = ["chain", "reversed chain", "star into 0", "star out of 0", "ring", "binary tree towards the root", "bidirectional chain", "chain plus an edge from node 0 to every other node"];
fn big_case(fam: usize, n: usize, out: usize, cont: u8) -> Case {
    let e: Vec<(usize, usize)> = match fam {
        0 => (0..n - 1).map(|i| (i, i + 1)).collect(),
        1 => (0..n - 1).map(|i| (i + 1, i)).collect(),
        2 => (1..n).map(|i| (i, 0)).collect(),
        3 => (1..n).map(|i| (0, i)).collect(),
        4 => (0..n).map(|i| (i, (i + 1) % n)).collect(),
        5 => (1..n).map(|i| (i, (i - 1) / 2)).collect(),
        6 => (0..n - 1).flat_map(|i| [(i, i + 1), (i + 1, i)]).collect(),
        _ => (0..n - 1).map(|i| (i, i + 1)).chain((1..n).map(|i| (0, i))).collect(),
    };
    let mut m = vec![0u8; n * n];
    for (a, b) in e {
        m[a * n + b] = (m[a * n + b] + 1).min(2);
    }
    Case { n, mult: m, out, cont, order: None }
}
fn run_big(fam: usize, n: usize, out: usize, cont: u8) -> Option<Bad> {
    let c = big_case(fam, n, out, cont);
    let mut p1 = Processor::<G1>::with_capacity(n);
    let mut p2 = Processor::<G2>::with_capacity(n);
    match catch(|| run_case(&c, &mut p1, &mut p2)) {
        Ok(Ok(())) => None,
        Ok(Err((k, m))) => Some((k, format!("{} on {n} nodes, output node {out}, container {cont}: {m}", BIG_FAMILIES[fam.min(7)]))),
        Err(p) => Some(("graph.panic".into(), format!("{} on {n} nodes: panicked: {p}", BIG_FAMILIES[fam.min(7)]))),
    }
}

/// 16-bit boundary probe: chains and stars on 2^16 +- 1 nodes with a linear-time oracle (the
/// matrix-based one is quadratic): every upstream node processed exactly once, inputs first, one
/// input per incoming edge referring to that neighbour's buffers, output value == number of
/// upstream nodes weighted as usual; two consecutive calls on one processor.
const HUGE_KINDS: [&str; 4] = ["chain", "star into node 0", "star out of node 0 (output = last leaf)", "chain, StableGraph with the first node removed"];
fn huge_graph_case(kind: usize, n: usize) -> Option<Bad> {
    let tag = format!("{} on {n} nodes", HUGE_KINDS[kind.min(3)]);
    let log: Rc<RefCell<Vec<Rec>>> = Rc::new(RefCell::new(Vec::new()));
    let call = Rc::new(RefCell::new(0u32));
    // expected: (upstream node ids in a valid order constraint, in-neighbours per node)
    let preds = |x: usize| -> Vec<usize> {
        match kind {
            0 | 3 => if x > 0 { vec![x - 1] } else { vec![] },
            1 => if x == 0 { (1..n).collect() } else { vec![] },
            _ => if x > 0 { vec![0] } else { vec![] },
        }
    };
    let out = match kind {
        1 => 0,
        _ => n - 1,
    };
    let upstream: Vec<usize> = match kind {
        0 | 3 => (0..n).collect(),
        1 => (0..n).collect(),
        _ => vec![0, n - 1],
    };
    let run = |process: &mut dyn FnMut() -> Result<(), String>, ptr_of: &dyn Fn(usize) -> (usize, usize), out_val: &dyn Fn() -> f32| -> Option<Bad> {
        for c in 1..=2u32 {
            *call.borrow_mut() = c;
            log.borrow_mut().clear();
            if let Err(p) = process() {
                return Some(("graph.panic".into(), format!("{tag}: call {c} panicked: {p}")));
            }
            let lg = log.borrow();
            if lg.len() != upstream.len() {
                return Some(("graph.visit".into(), format!("{tag}: call {c} processed {} nodes, expected the {} upstream nodes once each", lg.len(), upstream.len())));
            }
            let mut done = vec![false; n];
            let by_ptr: std::collections::HashMap<usize, usize> = upstream.iter().map(|&x| (ptr_of(x).0, x)).collect();
            for r in lg.iter() {
                let x = r.node;
                if x >= n || done[x] || (kind >= 2 && !upstream.contains(&x)) {
                    return Some(("graph.visit".into(), format!("{tag}: call {c}: node {x} processed twice or not upstream")));
                }
                let mut got: Vec<usize> = Vec::new();
                for &(p, l, _, _) in &r.inputs {
                    match by_ptr.get(&p) {
                        Some(&m) if ptr_of(m).1 == l && m != x => got.push(m),
                        _ => return Some(("graph.inputs".into(), format!("{tag}: call {c}: node {x} received an input that is not an upstream neighbour's buffer slice"))),
                    }
                }
                got.sort();
                let want = preds(x);
                if got != want {
                    return Some(("graph.inputs".into(), format!("{tag}: call {c}: node {x} received {} inputs, expected one per incoming edge ({} edges)", got.len(), want.len())));
                }
                if want.iter().any(|&m| !done[m]) {
                    return Some(("graph.order".into(), format!("{tag}: call {c}: node {x} processed before a node that feeds it")));
                }
                done[x] = true;
            }
            let exp: f64 = upstream.iter().map(|&x| weight(x) as f64).sum::<f64>();
            let exp = if kind == 1 || kind == 0 || kind == 3 { exp } else { weight(0) as f64 + weight(n - 1) as f64 };
            if exp < 16_777_216.0 && out_val() as f64 != exp {
                return Some(("graph.value".into(), format!("{tag}: call {c}: output buffer holds {}, functional evaluation gives {exp}", out_val())));
            }
        }
        None
    };
    let edges: Vec<(usize, usize)> = match kind {
        0 | 3 => (0..n - 1).map(|i| (i, i + 1)).collect(),
        1 => (1..n).map(|i| (i, 0)).collect(),
        _ => (1..n).map(|i| (0, i)).collect(),
    };
    if kind == 3 {
        let mut g = G2::with_capacity(n + 1, n);
        let dummy = g.add_node(mk_node(n + 7, &log, &call));
        let ix: Vec<NodeIndex> = (0..n).map(|i| g.add_node(mk_node(i, &log, &call))).collect();
        g.add_edge(dummy, ix[0], ());
        for &(a, b) in &edges {
            g.add_edge(ix[a], ix[b], ());
        }
        g.remove_node(dummy);
        let g = RefCell::new(g);
        let mut p = Processor::<G2>::with_capacity(n + 1);
        let o = ix[out];
        run(&mut || catch(|| p.process(&mut g.borrow_mut(), o)), &|x| (g.borrow()[ix[x]].buffers.as_ptr() as usize, g.borrow()[ix[x]].buffers.len()), &|| g.borrow()[o].buffers[0][0])
    } else {
        let mut g = G1::with_capacity(n, n);
        let ix: Vec<NodeIndex> = (0..n).map(|i| g.add_node(mk_node(i, &log, &call))).collect();
        for &(a, b) in &edges {
            g.add_edge(ix[a], ix[b], ());
        }
        let g = RefCell::new(g);
        let mut p = Processor::<G1>::with_capacity(n);
        let o = ix[out];
        run(&mut || catch(|| p.process(&mut g.borrow_mut(), o)), &|x| (g.borrow()[ix[x]].buffers.as_ptr() as usize, g.borrow()[ix[x]].buffers.len()), &|| g.borrow()[o].buffers[0][0])
    }
}

/// scale probe: nodes with very many (or no) output buffers: every Input must expose exactly the
/// neighbour's buffer slice (same address, same length)
fn bufcount_case(counts: &[usize]) -> Option<(String, String)> {
    let log = Rc::new(RefCell::new(Vec::new()));
    let call = Rc::new(RefCell::new(1u32));
    let mut g = G1::with_capacity(counts.len(), 8);
    let ix: Vec<NodeIndex> = counts
        .iter()
        .enumerate()
        .map(|(i, &k)| g.add_node(NodeData::new(ProbeNode { id: i, log: log.clone(), call: call.clone() }, vec![Buffer::SILENT; k])))
        .collect();
    // a chain plus a skip edge from the first to the last node
    for i in 0..counts.len() - 1 {
        g.add_edge(ix[i], ix[i + 1], ());
    }
    g.add_edge(ix[0], ix[counts.len() - 1], ());
    let mut p = Processor::<G1>::with_capacity(counts.len());
    let out = ix[counts.len() - 1];
    if let Err(e) = catch(|| p.process(&mut g, out)) {
        return Some(("graph.panic".into(), format!("buffer counts {counts:?}: process panicked: {e}")));
    }
    let ptrs: Vec<(usize, usize)> = ix.iter().map(|&i| (g[i].buffers.as_ptr() as usize, g[i].buffers.len())).collect();
    for r in log.borrow().iter() {
        for &(pp, l, _, _) in &r.inputs {
            // nodes without buffers all share the dangling empty-Vec address; match on length too
            if !ptrs.iter().enumerate().any(|(m, &(q, ql))| m != r.node && q == pp && ql == l) {
                return Some(("graph.inputs".into(), format!("buffer counts {counts:?}: node {} received an input of {l} buffers at an address/length that matches no neighbour's buffer slice {ptrs:?}", r.node)));
            }
        }
        if r.inputs.len() != if r.node == 0 { 0 } else if r.node == counts.len() - 1 && counts.len() > 2 { 2 } else { 1 } {
            return Some(("graph.inputs".into(), format!("buffer counts {counts:?}: node {} received {} inputs", r.node, r.inputs.len())));
        }
    }
    None
}

fn main() {
    let ctx = Ctx::new("C09", "release");
    if let Some(v) = ctx.replay_case() {
        if v["sys"] == "biggraph" {
            let g = |k: &str| v[k].as_u64().unwrap_or(0) as usize;
            let _guard_scope = guard::scoped(&v.to_string());
            ctx.finish_replay(run_big(g("fam"), g("n"), g("out"), g("cont") as u8).map(|e| format!("{}: {}", e.0, e.1)));
        }
        if v["sys"] == "hugegraph" {
            let _guard_scope = guard::scoped(&v.to_string());
            ctx.finish_replay(huge_graph_case(v["kind"].as_u64().unwrap_or(0) as usize, v["n"].as_u64().unwrap_or(65537) as usize).map(|e| format!("{}: {}", e.0, e.1)));
        }
        if v["sys"] == "bufcount" {
            let cs: Vec<usize> = v["counts"].as_array().map(|a| a.iter().map(|x| x.as_u64().unwrap_or(0) as usize).collect()).unwrap_or_default();
            let _guard_scope = guard::scoped(&v.to_string());
            ctx.finish_replay(bufcount_case(&cs).map(|e| e.1));
        }
        if v["nested"] == true {
            let c = Case::from_json(&v).unwrap_or_else(|| std::process::exit(2));
            let _guard_scope = guard::scoped(&v.to_string());
            ctx.finish_replay(nested_case(&c).err().map(|e| format!("{}: {}", e.0, e.1)));
        }
        let c = Case::from_json(&v).unwrap_or_else(|| {
            eprintln!("bad C09 case");
            std::process::exit(2)
        });
        let _guard_scope = guard::scoped(&v.to_string());
        let hist: Vec<Case> = v["history"].as_array().map(|a| a.iter().filter_map(Case::from_json).collect()).unwrap_or_default();
        ctx.finish_replay(run_with_history(&hist, &c));
    }
    ctx.rule("every directed multigraph on n<=3 nodes with multiplicity 0..2 per ordered pair (self pairs included), every digraph with loops on 4 nodes (thorough: every loop-free digraph on 5 nodes) ; every edge insertion order (sequences of up to 6 / 5 / 4 edges over all ordered pairs of 2 / 3 / 4 nodes, parallel edges need not be adjacent) x every output node x container in {Graph, StableGraph, StableGraph with vacancies before/between/after/all (dummy nodes wired in and removed)} x 2 consecutive process calls (60 for the scale-probe graphs); every multigraph on <=3 nodes also nested in a GraphNode of a one-node outer graph (node 0 declared as an input port that nothing feeds), same oracle on the inner log on a processor reused across a whole chunk of the enumeration (256 graphs x outputs x containers; a violation's replay artefact carries the shortest suffix of that history with which it reproduces on a fresh processor); instrumented nodes log (node, call, own buffer ptr, per input ptr/len/value/call#); oracle: independent reverse reachability, multiset of in-edges by buffer identity, no self-alias, topological order and functional evaluation when the upstream subgraph is acyclic, sources()/sinks() == existing nodes without in/out edges; plus scale probes: nodes with 0, 1, 2, 255, 256, 257 and 1000 output buffers in every combination on a 3-node graph; 12 structured families (chains, stars, rings, complete DAG / digraph, tree, double edges, ...) on 5..=9 nodes; 8 structured families (chain, reversed chain, stars, ring, binary tree, bidirectional chain, chain with a fan-out from node 0) on 33, 64, 255, 256, 257 nodes (thorough: also 31, 32, 100, 300) x output node in {0, 1, n/2, n-2, n-1} x {Graph, StableGraph}, 60 calls each; chains and stars on 65535, 65536, 65537 nodes (Graph, and a StableGraph chain with its first slot vacant) under a linear-time form of the same oracle, 2 calls each; non-trivial = at least one edge, distinct by (graph, output, container)");
    // enumerate
    // (node count, multiplicity matrix, explicit edge insertion order if any)
    let mut graphs: Vec<(usize, Vec<u8>, Option<Vec<(usize, usize)>>)> = Vec::new();
    for n in 1..=3usize {
        for code in 0..3usize.pow((n * n) as u32) {
            let mut m = Vec::with_capacity(n * n);
            let mut x = code;
            for _ in 0..n * n {
                m.push((x % 3) as u8);
                x /= 3;
            }
            graphs.push((n, m, None));
        }
    }
    for code in 0..(1u32 << 16) {
        graphs.push((4, (0..16).map(|b| ((code >> b) & 1) as u8).collect(), None));
    }
    if ctx.thorough() {
        for code in 0..(1u32 << 20) {
            let mut m = vec![0u8; 25];
            let mut bit = 0;
            for a in 0..5 {
                for b in 0..5 {
                    if a != b {
                        m[a * 5 + b] = ((code >> bit) & 1) as u8;
                        bit += 1;
                    }
                }
            }
            graphs.push((5, m, None));
        }
    }
    // scale probes: structured families on 5..=9 nodes (not exhaustive over shapes; every output node,
    // every container and both calls for each member)
    let mut fam_count = 0usize;
    for n in 5..=9usize {
        let mut fams: Vec<Vec<(usize, usize)>> = Vec::new();
        fams.push((0..n - 1).map(|i| (i, i + 1)).collect()); // chain
        fams.push((0..n - 1).map(|i| (i + 1, i)).collect()); // reversed chain
        fams.push((1..n).map(|i| (i, 0)).collect()); // star into 0
        fams.push((1..n).map(|i| (0, i)).collect()); // star out of 0
        fams.push((0..n).map(|i| (i, (i + 1) % n)).collect()); // ring
        fams.push((0..n).flat_map(|i| [(i, (i + 1) % n), (i, (i + 2) % n)]).collect()); // ring with chords
        fams.push((0..n).flat_map(|a| (a + 1..n).map(move |b| (a, b))).collect()); // complete DAG
        fams.push((0..n).flat_map(|a| (0..n).map(move |b| (a, b))).collect()); // complete digraph with loops
        fams.push((1..n).map(|i| (i, (i - 1) / 2)).collect()); // binary tree towards the root
        fams.push((0..n - 1).flat_map(|i| [(i, i + 1), (i, i + 1)]).collect()); // chain of double edges
        fams.push((0..n - 2).map(|i| (i, i + 1)).chain([(n - 1, n - 1)]).collect()); // chain plus an isolated self-loop node
        fams.push((0..n - 1).flat_map(|i| [(i, i + 1), (i + 1, i)]).collect()); // bidirectional chain
        for e in fams {
            let mut m = vec![0u8; n * n];
            for (a, b) in e {
                m[a * n + b] = (m[a * n + b] + 1).min(2);
            }
            graphs.push((n, m, None));
            fam_count += 1;
        }
    }
    // edge insertion order: every sequence of up to 5 edges over the 9 ordered pairs of 3 nodes (and up
    // to 4 edges on 4 nodes), so that parallel edges need not be adjacent in the adjacency lists
    let mut seq_count = 0usize;
    for (n, maxlen) in [(2usize, 6usize), (3, 5), (4, 4)] {
        let pairs: Vec<(usize, usize)> = (0..n).flat_map(|a| (0..n).map(move |b| (a, b))).collect();
        for len in 2..=maxlen {
            for code in 0..pairs.len().pow(len as u32) {
                let seq: Vec<(usize, usize)> = (0..len).map(|j| pairs[(code / pairs.len().pow(j as u32)) % pairs.len()]).collect();
                // only sequences that are not already in sorted order (those are the multigraphs above)
                if seq.windows(2).all(|w| w[0] <= w[1]) {
                    continue;
                }
                let mut m = vec![0u8; n * n];
                for &(a, b) in &seq {
                    m[a * n + b] += 1;
                }
                graphs.push((n, m, Some(seq)));
                seq_count += 1;
            }
        }
    }
    ctx.set("edge_order_sequences", json!(seq_count));
    ctx.set("scale_probe_graphs", json!(fam_count));
    ctx.set("graphs", json!(graphs.len()));
    let evals = AtomicU64::new(0);
    let calls = AtomicU64::new(0);
    guard::set_hang_secs(60);
    graphs.par_chunks(256).for_each(|chunk| {
        // one processor per container type, reused across graphs of changing shape and size
        let mut p1 = Processor::<G1>::with_capacity(8);
        let mut p2 = Processor::<G2>::with_capacity(8);
        let mut fps = Vec::new();
        let mut hist: Vec<Case> = Vec::new(); // what this chunk's processors have processed so far
        for (n, m, order) in chunk {
            let nv = 2 + vacancy_patterns(*n).len() as u8;
            for out in 0..*n {
                for cont in 0..nv {
                    let c = Case { n: *n, mult: m.clone(), out, cont, order: order.clone() };
                    let cj = c.to_json();
                    let _guard_scope = guard::scoped(&cj.to_string());
                    evals.fetch_add(1, Relaxed);
                    calls.fetch_add(2, Relaxed);
                    if cont == 0 && *n <= 3 && order.is_none() {
                        evals.fetch_add(1, Relaxed);
                        calls.fetch_add(2, Relaxed);
                        if let Err((k, msg)) = nested_case(&c) {
                            let mut cj = c.to_json();
                            cj["nested"] = json!(true);
                            ctx.violation(&k, cj, msg.clone(), Some(&|| nested_case(&c).err().map(|_| msg.clone())));
                        }
                    }
                    match run_case(&c, &mut p1, &mut p2) {
                        Ok(()) => {
                            if m.iter().any(|&x| x > 0) && fps.len() < 4096 {
                                fps.push(common::fnv_str(&cj.to_string()));
                            }
                        }
                        Err((k, msg)) => {
                            let h = minimal_history(&hist, &c);
                            let mut cj = cj;
                            cj["history"] = json!(h.iter().map(|x| x.to_json()).collect::<Vec<_>>());
                            // the replay's wording may differ (call numbers); only reproduction matters
                            ctx.violation(&k, cj, msg.clone(), Some(&|| run_with_history(&h, &c).map(|_| msg.clone())));
                        }
                    }
                    hist.push(c);
                }
            }
        }
        ctx.observe_many(fps);
        guard::leave();
    });
    // scale probes: structured graphs on hundreds of nodes, 60 calls each
    let big_ns: &[usize] = if ctx.thorough() { &[31, 32, 33, 64, 100, 255, 256, 257, 300] } else { &[33, 64, 255, 256, 257] };
    let mut bigs = Vec::new();
    for &n in big_ns {
        for fam in 0..BIG_FAMILIES.len() {
            for out in [0, 1, n / 2, n - 2, n - 1] {
                for cont in 0..2u8 {
                    bigs.push((fam, n, out, cont));
                }
            }
        }
    }
    guard::set_hang_secs(300);
    bigs.par_iter().for_each(|&(fam, n, out, cont)| {
        let case = json!({"sys":"biggraph","fam":fam,"family":BIG_FAMILIES[fam],"n":n,"out":out,"cont":cont});
        let _guard_scope = guard::scoped(&case.to_string());
        evals.fetch_add(1, Relaxed);
        calls.fetch_add(60, Relaxed);
        match run_big(fam, n, out, cont) {
            None => ctx.observe(common::fnv_str(&case.to_string())),
            Some((k, m)) => ctx.violation(&k, case, m, Some(&|| run_big(fam, n, out, cont).map(|e| e.1))),
        }
    });
    ctx.set("big_graph_cases", json!(bigs.len()));
    // 16-bit boundary probes: chains and stars on 2^16 +- 1 nodes
    let mut huge = Vec::new();
    for n in [65535usize, 65536, 65537] {
        for kind in 0..HUGE_KINDS.len() {
            huge.push((kind, n));
        }
    }
    huge.par_iter().for_each(|&(kind, n)| {
        let case = json!({"sys":"hugegraph","kind":kind,"shape":HUGE_KINDS[kind],"n":n});
        let _guard_scope = guard::scoped(&case.to_string());
        evals.fetch_add(1, Relaxed);
        calls.fetch_add(2, Relaxed);
        match catch(|| huge_graph_case(kind, n)) {
            Ok(None) => ctx.observe(common::fnv_str(&case.to_string())),
            Ok(Some((k, m))) => ctx.violation(&k, case, m, Some(&|| huge_graph_case(kind, n).map(|e| e.1))),
            Err(p) => ctx.violation("graph.panic", case, format!("{} on {n} nodes: panicked: {p}", HUGE_KINDS[kind]), None),
        }
    });
    // scale probes: buffer counts per node
    let counts = [0usize, 1, 2, 255, 256, 257, 1000];
    for &a in &counts {
        for &b in &counts {
            for &c in &counts {
                let cs = [a, b, c];
                let case = json!({"sys":"bufcount","counts":cs});
                let _guard_scope = guard::scoped(&case.to_string());
                evals.fetch_add(1, Relaxed);
                if let Some((k, m)) = bufcount_case(&cs) {
                    ctx.violation(&k, case, m, Some(&|| bufcount_case(&cs).map(|e| e.1)));
                }
            }
        }
    }
    ctx.add_evals(evals.load(Relaxed));
    ctx.set("process_calls", json!(calls.load(Relaxed)));
    ctx.set("exhaustive", json!(true));
    ctx.set("exhaustive_scope", json!("all multigraphs (multiplicity<=2) on <=3 nodes, all digraphs on 4 nodes, thorough: all loop-free digraphs on 5; larger graphs are not explored (random sampling is outside this family)"));
    ctx.sample(json!({"sys":"graph","n":3,"mult":[0,2,0, 0,1,1, 1,0,0],"out":2,"cont":3,"meaning":"0=>1 twice, 1->1 self loop, 1->2, 2->0: cyclic; StableGraph with a vacancy pattern"}));
    ctx.sample(json!({"sys":"graph","n":4,"mult":[0,1,1,0, 0,0,0,1, 0,0,0,1, 0,0,0,0],"out":3,"cont":0,"meaning":"diamond 0->{1,2}->3 in a plain Graph: acyclic, output value 8^3 + (8+1) + (64+1)"}));
    ctx.assume("node identity of an Input is established by the address of the neighbour's Vec<Buffer> storage (stable while the graph is not modified)");
    ctx.finish();
}
