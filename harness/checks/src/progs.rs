//! Program enumeration for C04 / C05: adaptor trees built at run time over a
//! forwarding wrapper `Dyn`, every adaptor under test being the real struct,
//! and an AST interpreter as reference.

use crate::probe::{Counters, Probe};
use common::refmodel::{sample_add, sample_mul, Fmt};
use dasp_frame::Frame;
use dasp_sample::{FromSample, Sample};
use dasp_signal::{self as signal, Signal};
use std::cell::RefCell;
use std::fmt::Debug;
use std::rc::Rc;

/// Pure delegation; exists because adaptor structs are generic and trees are
/// built at run time.
pub struct Dyn<'a, F>(pub Box<dyn Signal<Frame = F> + 'a>);
impl<'a, F: Frame> Signal for Dyn<'a, F> {
    type Frame = F;
    fn next(&mut self) -> F {
        self.0.next()
    }
    fn is_exhausted(&self) -> bool {
        self.0.is_exhausted()
    }
}

// ------------------------------------------------------------------- the AST
#[derive(Clone, Copy, Debug, PartialEq, Eq, Hash)]
pub enum Leaf {
    Probe(u32),
    Iter(u32),
    Inter(u32), // number of interleaved samples
    Equil,
    Gen,
    GenMut,
}
#[derive(Clone, Copy, Debug, PartialEq, Eq, Hash)]
pub enum Un {
    Map,
    ScaleHalf,
    ScaleNeg,
    ScaleZero,
    ScaleOne,
    ScaleBig, // gain 4: float frames leave [-1, 1] (scale probes only, not in UNARY)
    ClipZero, // clip_amp(0): every channel limited to [-0, 0] = equilibrium (scale probes only)
    Offset,
    ScalePC,
    OffsetPC,
    Clip,
    Inspect,
    Delay(u32),
}
#[derive(Clone, Copy, Debug, PartialEq, Eq, Hash)]
pub enum Bin {
    Add,
    Mul,
    Zip,
}
#[derive(Clone, Debug, PartialEq, Eq, Hash)]
pub enum Node {
    L(Leaf),
    U(Un, Box<Node>),
    B(Bin, Box<Node>, Box<Node>),
}

pub const UNARY: [Un; 13] = [Un::Map, Un::ScaleHalf, Un::ScaleNeg, Un::ScaleZero, Un::ScaleOne, Un::Offset, Un::ScalePC, Un::OffsetPC, Un::Clip, Un::Inspect, Un::Delay(0), Un::Delay(1), Un::Delay(2)];
pub const BINARY: [Bin; 3] = [Bin::Add, Bin::Mul, Bin::Zip];

impl Node {
    pub fn show(&self) -> String {
        match self {
            Node::L(Leaf::Probe(n)) => format!("probe{n}"),
            Node::L(Leaf::Iter(n)) => format!("iter{n}"),
            Node::L(Leaf::Inter(n)) => format!("inter{n}"),
            Node::L(Leaf::Equil) => "equil".into(),
            Node::L(Leaf::Gen) => "gen".into(),
            Node::L(Leaf::GenMut) => "genmut".into(),
            Node::U(u, c) => format!(
                "{}({})",
                match u {
                    Un::Map => "map".to_string(),
                    Un::ScaleHalf => "scale_half".into(),
                    Un::ScaleNeg => "scale_neg".into(),
                    Un::ScaleZero => "scale_zero".into(),
                    Un::ScaleOne => "scale_one".into(),
                    Un::ScaleBig => "scale_big".into(),
                    Un::Offset => "offset".into(),
                    Un::ScalePC => "scale_pc".into(),
                    Un::OffsetPC => "offset_pc".into(),
                    Un::Clip => "clip".into(),
                    Un::ClipZero => "clip_zero".into(),
                    Un::Inspect => "inspect".into(),
                    Un::Delay(k) => format!("delay{k}"),
                },
                c.show()
            ),
            Node::B(b, l, r) => format!(
                "{}({},{})",
                match b {
                    Bin::Add => "add",
                    Bin::Mul => "mul",
                    Bin::Zip => "zip",
                },
                l.show(),
                r.show()
            ),
        }
    }
    pub fn parse(s: &str) -> Option<Node> {
        let (n, rest) = parse_node(s.trim())?;
        if rest.trim().is_empty() {
            Some(n)
        } else {
            None
        }
    }
    pub fn total_delay(&self) -> usize {
        match self {
            Node::L(_) => 0,
            Node::U(Un::Delay(k), c) => *k as usize + c.total_delay(),
            Node::U(_, c) => c.total_delay(),
            Node::B(_, l, r) => l.total_delay().max(r.total_delay()),
        }
    }
    pub fn longest_source(&self, ch: usize) -> usize {
        match self {
            Node::L(Leaf::Probe(n)) | Node::L(Leaf::Iter(n)) => *n as usize,
            Node::L(Leaf::Inter(n)) => *n as usize / ch.max(1),
            Node::L(_) => 0,
            Node::U(_, c) => c.longest_source(ch),
            Node::B(_, l, r) => l.longest_source(ch).max(r.longest_source(ch)),
        }
    }
    /// does the left spine (main family) start with a leaf of this kind?
    pub fn first_main_leaf(&self) -> Leaf {
        match self {
            Node::L(l) => *l,
            Node::U(_, c) => c.first_main_leaf(),
            Node::B(_, l, _) => l.first_main_leaf(),
        }
    }
    pub fn size(&self) -> usize {
        match self {
            Node::L(_) => 1,
            Node::U(_, c) => 1 + c.size(),
            Node::B(_, l, r) => 1 + l.size() + r.size(),
        }
    }
}

fn parse_node(s: &str) -> Option<(Node, &str)> {
    let end = s.find(|c: char| c == '(' || c == ',' || c == ')').unwrap_or(s.len());
    let head = &s[..end];
    let rest = &s[end..];
    let num = |p: &str| head.strip_prefix(p).and_then(|x| x.parse::<u32>().ok());
    if !rest.starts_with('(') {
        let l = match head {
            "equil" => Leaf::Equil,
            "gen" => Leaf::Gen,
            "genmut" => Leaf::GenMut,
            _ => {
                if let Some(n) = num("probe") {
                    Leaf::Probe(n)
                } else if let Some(n) = num("iter") {
                    Leaf::Iter(n)
                } else if let Some(n) = num("inter") {
                    Leaf::Inter(n)
                } else {
                    return None;
                }
            }
        };
        return Some((Node::L(l), rest));
    }
    let inner = &rest[1..];
    let bin = match head {
        "add" => Some(Bin::Add),
        "mul" => Some(Bin::Mul),
        "zip" => Some(Bin::Zip),
        _ => None,
    };
    if let Some(b) = bin {
        let (l, r1) = parse_node(inner)?;
        let r1 = r1.strip_prefix(',')?;
        let (r, r2) = parse_node(r1)?;
        let r2 = r2.strip_prefix(')')?;
        return Some((Node::B(b, Box::new(l), Box::new(r)), r2));
    }
    let u = match head {
        "map" => Un::Map,
        "scale_half" => Un::ScaleHalf,
        "scale_neg" => Un::ScaleNeg,
        "scale_zero" => Un::ScaleZero,
        "scale_one" => Un::ScaleOne,
        "scale_big" => Un::ScaleBig,
        "offset" => Un::Offset,
        "scale_pc" => Un::ScalePC,
        "offset_pc" => Un::OffsetPC,
        "clip" => Un::Clip,
        "clip_zero" => Un::ClipZero,
        "inspect" => Un::Inspect,
        _ => Un::Delay(num("delay")?),
    };
    let (c, r1) = parse_node(inner)?;
    let r1 = r1.strip_prefix(')')?;
    Some((Node::U(u, Box::new(c)), r1))
}

// -------------------------------------------------------- frame type families
pub type SgS<F> = <<F as Frame>::Sample as Sample>::Signed;
pub type FlS<F> = <<F as Frame>::Sample as Sample>::Float;

/// A frame type the enumerator can build programs over.
pub trait Fr: Frame + Debug + PartialEq + 'static {
    const NAME: &'static str;
    /// position-coded frame n of source `id` (small amplitudes, never overflows
    /// under the depth-bounded programs)
    fn coded(id: usize, n: usize) -> Self;
    fn offset() -> SgS<Self>;
    fn clip_t() -> SgS<Self>;
    fn offset_pc() -> Self::Signed;
    fn scale_pc() -> Self::Float;
    fn map_fn(f: Self) -> Self;
    fn zip_fn(a: Self, b: Self) -> Self;
    /// The amplitude operations as the reference interpreter applies them. Integer families
    /// override these with independent integer / float arithmetic (common::refmodel), so that the
    /// interpreter does not inherit a defect of the Frame / Sample operation itself; float families
    /// keep the native operation. Outside the law's domain (result out of range) the real operation
    /// is used.
    fn abs_scale(self, g: FlS<Self>) -> Self {
        self.scale_amp(g)
    }
    fn abs_offset(self, k: SgS<Self>) -> Self {
        self.offset_amp(k)
    }
    fn abs_add(self, o: Self::Signed) -> Self {
        self.add_amp(o)
    }
    fn abs_mul(self, o: Self::Float) -> Self {
        self.mul_amp(o)
    }
}

fn gain<F: Frame>(g: f64) -> FlS<F> {
    <FlS<F> as FromSample<f64>>::from_sample_(g)
}

macro_rules! fr_int {
    ($T:ty, $N:expr, $name:expr, $S:ty, $eq:expr, $FMT:expr) => {
        impl Fr for [$T; $N] {
            const NAME: &'static str = $name;
            fn coded(id: usize, n: usize) -> Self {
                core::array::from_fn(|c| ($eq as i64 + (((n + 1) * 3 + id * 7 + c * 5) % 41) as i64 - 20) as $T)
            }
            fn offset() -> $S {
                3
            }
            fn clip_t() -> $S {
                10
            }
            fn offset_pc() -> [$S; $N] {
                core::array::from_fn(|c| c as $S - 1)
            }
            fn scale_pc() -> [f32; $N] {
                core::array::from_fn(|c| [0.5, -1.0, 0.25][c % 3])
            }
            fn map_fn(f: Self) -> Self {
                f.scale_amp(0.5).offset_amp(1)
            }
            fn zip_fn(a: Self, b: Self) -> Self {
                core::array::from_fn(|c| if c % 2 == 0 { a[c] } else { b[c] })
            }
            fn abs_scale(self, g: f32) -> Self {
                let real = self.scale_amp(g);
                core::array::from_fn(|c| sample_mul($FMT, self[c] as i128, g as f64).map(|x| x as $T).unwrap_or(real[c]))
            }
            fn abs_offset(self, k: $S) -> Self {
                let real = self.offset_amp(k);
                core::array::from_fn(|c| sample_add($FMT, self[c] as i128, k as i128).map(|x| x as $T).unwrap_or(real[c]))
            }
            fn abs_add(self, o: [$S; $N]) -> Self {
                let real = self.add_amp(o);
                core::array::from_fn(|c| sample_add($FMT, self[c] as i128, o[c] as i128).map(|x| x as $T).unwrap_or(real[c]))
            }
            fn abs_mul(self, o: [f32; $N]) -> Self {
                let real = self.mul_amp(o);
                core::array::from_fn(|c| sample_mul($FMT, self[c] as i128, o[c] as f64).map(|x| x as $T).unwrap_or(real[c]))
            }
        }
    };
}
fr_int!(i16, 2, "[i16;2]", i16, 0, Fmt::I16);
fr_int!(u8, 3, "[u8;3]", i8, 128, Fmt::U8);
fr_int!(i8, 3, "[i8;3]", i8, 0, Fmt::I8);

macro_rules! fr_float {
    ($T:ty, $N:expr, $name:expr) => {
        fr_float!($T, $N, $name, 1.0);
    };
    ($T:ty, $N:expr, $name:expr, $K:expr) => {
        impl Fr for [$T; $N] {
            const NAME: &'static str = $name;
            fn coded(id: usize, n: usize) -> Self {
                core::array::from_fn(|c| ((((n + 1) * 3 + id * 7 + c * 5) % 9) as $T * 0.125 - 0.5) * $K)
            }
            fn offset() -> $T {
                0.125 * $K
            }
            fn clip_t() -> $T {
                0.3 * $K
            }
            fn offset_pc() -> [$T; $N] {
                core::array::from_fn(|c| (c as $T * 0.25 - 0.25) * $K)
            }
            fn scale_pc() -> [$T; $N] {
                core::array::from_fn(|c| [0.5, -1.0, 0.25][c % 3])
            }
            fn map_fn(f: Self) -> Self {
                f.scale_amp(0.5).offset_amp(0.0625 * $K)
            }
            fn zip_fn(a: Self, b: Self) -> Self {
                core::array::from_fn(|c| if c % 2 == 0 { a[c] } else { b[c] })
            }
            // floats: the native operation, whatever the magnitude (float frames may exceed [-1, 1])
            fn abs_scale(self, g: $T) -> Self {
                core::array::from_fn(|c| self[c] * g)
            }
            fn abs_offset(self, k: $T) -> Self {
                core::array::from_fn(|c| self[c] + k)
            }
            fn abs_add(self, o: [$T; $N]) -> Self {
                core::array::from_fn(|c| self[c] + o[c])
            }
            fn abs_mul(self, o: [$T; $N]) -> Self {
                core::array::from_fn(|c| self[c] * o[c])
            }
        }
    };
}
/// wide integer families: values and the clip threshold need more significant bits than the
/// Float companion's mantissa (24 for i32/f32, 53 for i64/f64)
macro_rules! fr_wide {
    ($T:ty, $N:expr, $name:expr, $FT:ty, $scale:expr, $clip:expr, $FMT:expr) => {
        impl Fr for [$T; $N] {
            const NAME: &'static str = $name;
            fn coded(id: usize, n: usize) -> Self {
                core::array::from_fn(|c| ((((n + 1) * 3 + id * 7 + c * 5) % 41) as $T - 20) * $scale + 1)
            }
            fn offset() -> $T {
                3
            }
            fn clip_t() -> $T {
                $clip
            }
            fn offset_pc() -> [$T; $N] {
                core::array::from_fn(|c| c as $T - 1)
            }
            fn scale_pc() -> [$FT; $N] {
                core::array::from_fn(|c| [0.5, -1.0, 0.25][c % 3])
            }
            fn map_fn(f: Self) -> Self {
                f.scale_amp(0.5).offset_amp(1)
            }
            fn zip_fn(a: Self, b: Self) -> Self {
                core::array::from_fn(|c| if c % 2 == 0 { a[c] } else { b[c] })
            }
            fn abs_scale(self, g: $FT) -> Self {
                let real = self.scale_amp(g);
                core::array::from_fn(|c| sample_mul($FMT, self[c] as i128, g as f64).map(|x| x as $T).unwrap_or(real[c]))
            }
            fn abs_offset(self, k: $T) -> Self {
                let real = self.offset_amp(k);
                core::array::from_fn(|c| sample_add($FMT, self[c] as i128, k as i128).map(|x| x as $T).unwrap_or(real[c]))
            }
            fn abs_add(self, o: [$T; $N]) -> Self {
                let real = self.add_amp(o);
                core::array::from_fn(|c| sample_add($FMT, self[c] as i128, o[c] as i128).map(|x| x as $T).unwrap_or(real[c]))
            }
            fn abs_mul(self, o: [$FT; $N]) -> Self {
                let real = self.mul_amp(o);
                core::array::from_fn(|c| sample_mul($FMT, self[c] as i128, o[c] as f64).map(|x| x as $T).unwrap_or(real[c]))
            }
        }
    };
}
fr_wide!(i32, 2, "[i32;2]", f32, 12_345_677, 123_456_789, Fmt::I32);
fr_wide!(i64, 1, "[i64;1]", f64, 12_345_678_901_234_567, 123_456_789_012_345_678, Fmt::I64);
fr_float!(f64, 1, "[f64;1]");
fr_float!(f32, 2, "[f32;2]");
fr_float!(f32, 3, "[f32;3]");
fr_float!(f64, 2, "[f64;2]");
// magnitude families: the same dyadic lattice scaled by an exact power of two, so that every
// operation stays exact -- far below any "silence" threshold (2^-200) and far above full scale (2^20)
fr_float!(f64, 3, "[f64;3] tiny", 6.223015277861142e-61);
fr_float!(f32, 1, "[f32;1] loud", 1048576.0);

/// a bare wide integer sample used as a mono frame (its own `Frame` impl, not the array one)
impl Fr for i32 {
    const NAME: &'static str = "i32";
    fn coded(id: usize, n: usize) -> i32 {
        ((((n + 1) * 3 + id * 7) % 41) as i32 - 20) * 12_345_677 + 1
    }
    fn offset() -> i32 {
        3
    }
    fn clip_t() -> i32 {
        123_456_789
    }
    fn offset_pc() -> i32 {
        -1
    }
    fn scale_pc() -> f32 {
        -1.0
    }
    fn map_fn(f: i32) -> i32 {
        f.scale_amp(0.5).offset_amp(1)
    }
    fn zip_fn(a: i32, b: i32) -> i32 {
        a / 2 - b / 4
    }
    fn abs_scale(self, g: f32) -> i32 {
        sample_mul(Fmt::I32, self as i128, g as f64).map(|x| x as i32).unwrap_or_else(|| Frame::scale_amp(self, g))
    }
    fn abs_offset(self, k: i32) -> i32 {
        sample_add(Fmt::I32, self as i128, k as i128).map(|x| x as i32).unwrap_or_else(|| Frame::offset_amp(self, k))
    }
    fn abs_add(self, o: i32) -> i32 {
        sample_add(Fmt::I32, self as i128, o as i128).map(|x| x as i32).unwrap_or_else(|| Frame::add_amp(self, o))
    }
    fn abs_mul(self, o: f32) -> i32 {
        sample_mul(Fmt::I32, self as i128, o as f64).map(|x| x as i32).unwrap_or_else(|| Frame::mul_amp(self, o))
    }
}

impl Fr for f32 {
    const NAME: &'static str = "f32";
    fn coded(id: usize, n: usize) -> f32 {
        (((n + 1) * 3 + id * 7) % 9) as f32 * 0.125 - 0.5
    }
    fn offset() -> f32 {
        0.125
    }
    fn clip_t() -> f32 {
        0.3
    }
    fn offset_pc() -> f32 {
        -0.25
    }
    fn scale_pc() -> f32 {
        -1.0
    }
    fn map_fn(f: f32) -> f32 {
        Sample::add_amp(Sample::mul_amp(f, 0.5), 0.0625)
    }
    fn zip_fn(a: f32, b: f32) -> f32 {
        a - b * 0.5
    }
    fn abs_scale(self, g: f32) -> f32 {
        self * g
    }
    fn abs_offset(self, k: f32) -> f32 {
        self + k
    }
    fn abs_add(self, o: f32) -> f32 {
        self + o
    }
    fn abs_mul(self, o: f32) -> f32 {
        self * o
    }
}

// ------------------------------------------------------------------ watchers
/// What the run must observe besides the output frames.
#[derive(Default)]
pub struct Watch {
    /// (leaf description, counters, total delay above the leaf)
    pub probes: Vec<(String, Counters, usize)>,
    /// after k root calls: a description of a disagreement, if any
    pub inspects: Vec<Box<dyn Fn(usize) -> Option<String>>>,
}

impl Watch {
    pub fn check(&self, k: usize) -> Option<String> {
        for (name, c, d) in &self.probes {
            let want = k.saturating_sub(*d);
            if c.pulls() != want {
                return Some(format!("after {k} calls source {name} (under {d} frames of delay) was pulled {} times, expected {want}", c.pulls()));
            }
        }
        for i in &self.inspects {
            if let Some(m) = i(k) {
                return Some(m);
            }
        }
        None
    }
}

// ------------------------------------------------------------------ the model
#[derive(Clone, Debug)]
pub struct Model<F> {
    pub frames: Vec<F>,
    /// is_exhausted() is true exactly after >= t calls (usize::MAX: never)
    pub t: usize,
}

fn leaf_model<F: Fr>(l: Leaf, id: usize, h: usize) -> Model<F> {
    let finite = |len: usize| Model { frames: (0..h).map(|n| if n < len { F::coded(id, n) } else { F::EQUILIBRIUM }).collect(), t: len };
    match l {
        Leaf::Probe(n) | Leaf::Iter(n) => finite(n as usize),
        Leaf::Inter(ns) => finite(ns as usize / F::CHANNELS),
        Leaf::Equil => Model { frames: vec![F::EQUILIBRIUM; h], t: usize::MAX },
        Leaf::Gen => Model { frames: vec![F::coded(id, 0); h], t: usize::MAX },
        Leaf::GenMut => Model { frames: (0..h).map(|n| F::coded(id, n)).collect(), t: usize::MAX },
    }
}

fn clip_ref<F: Fr>(f: F) -> F
where
    SgS<F>: PartialOrd + core::ops::Neg<Output = SgS<F>>,
{
    let t = F::clip_t();
    f.map(|s| {
        let a: SgS<F> = s.to_sample();
        let c = if a > t {
            t
        } else if a < -t {
            -t
        } else {
            a
        };
        c.to_sample()
    })
}

fn un_model<F: Fr>(u: Un, m: Model<F>, h: usize) -> Model<F> {
    let pt = |f: &dyn Fn(F) -> F| Model { frames: m.frames.iter().map(|x| f(*x)).collect(), t: m.t };
    match u {
        Un::Map => pt(&F::map_fn),
        Un::ScaleHalf => pt(&|f| f.abs_scale(gain::<F>(0.5))),
        Un::ScaleNeg => pt(&|f| f.abs_scale(gain::<F>(-1.0))),
        Un::ScaleZero => pt(&|f| f.abs_scale(gain::<F>(0.0))),
        Un::ScaleOne => pt(&|f| f.abs_scale(gain::<F>(1.0))),
        Un::ScaleBig => pt(&|f| f.abs_scale(gain::<F>(4.0))),
        Un::Offset => pt(&|f| f.abs_offset(F::offset())),
        Un::ScalePC => pt(&|f| f.abs_mul(F::scale_pc())),
        Un::OffsetPC => pt(&|f| f.abs_add(F::offset_pc())),
        Un::Clip => pt(&clip_ref::<F>),
        Un::ClipZero => pt(&|_| F::EQUILIBRIUM),
        Un::Inspect => m,
        Un::Delay(k) => {
            let k = k as usize;
            Model { frames: (0..h).map(|n| if n < k { F::EQUILIBRIUM } else { m.frames[n - k] }).collect(), t: m.t.saturating_add(k) }
        }
    }
}

pub fn model_unary<F: Fr>(node: &Node, h: usize, id: &mut usize) -> Model<F> {
    match node {
        Node::L(l) => {
            *id += 1;
            leaf_model(*l, *id, h)
        }
        Node::U(u, c) => {
            let m = model_unary::<F>(c, h, id);
            un_model(*u, m, h)
        }
        Node::B(..) => panic!("binary node in a unary position"),
    }
}

pub fn model_tree<F: Fr>(node: &Node, h: usize, id: &mut usize) -> Model<F>
where
    F::Signed: Fr,
    F::Float: Fr,
{
    match node {
        Node::L(_) => model_unary::<F>(node, h, id),
        Node::U(u, c) => {
            let m = model_tree::<F>(c, h, id);
            un_model(*u, m, h)
        }
        Node::B(b, l, r) => {
            let a = model_tree::<F>(l, h, id);
            match b {
                Bin::Add => {
                    let o = model_unary::<F::Signed>(r, h, id);
                    Model { frames: (0..h).map(|n| a.frames[n].abs_add(o.frames[n])).collect(), t: a.t.min(o.t) }
                }
                Bin::Mul => {
                    let o = model_unary::<F::Float>(r, h, id);
                    Model { frames: (0..h).map(|n| a.frames[n].abs_mul(o.frames[n])).collect(), t: a.t.min(o.t) }
                }
                Bin::Zip => {
                    let o = model_tree::<F>(r, h, id);
                    Model { frames: (0..h).map(|n| F::zip_fn(a.frames[n], o.frames[n])).collect(), t: a.t.min(o.t) }
                }
            }
        }
    }
}

// ------------------------------------------------------------------ building
/// Slot for an externally owned first main-family leaf (`&mut probe` for the
/// by_ref runs, the `FromIterator` handed over by `lift`).
pub struct Ext<'a, F>(pub Option<Dyn<'a, F>>);

fn leaf_build<'a, F: Fr>(l: Leaf, id: usize, ext: &mut Ext<'a, F>, w: &mut Watch, delay_above: usize) -> Dyn<'a, F> {
    if matches!(l, Leaf::Probe(_) | Leaf::Iter(_)) {
        if let Some(d) = ext.0.take() {
            return d;
        }
    }
    match l {
        Leaf::Probe(n) => {
            let (p, c) = Probe::new((0..n as usize).map(|k| F::coded(id, k)).collect());
            w.probes.push((format!("probe{n}#{id}"), c, delay_above));
            Dyn(Box::new(p))
        }
        Leaf::Iter(n) => Dyn(Box::new(signal::from_iter((0..n as usize).map(move |k| F::coded(id, k))))),
        Leaf::Inter(ns) => {
            let ns = ns as usize;
            let samples: Vec<F::Sample> = (0..ns).map(|i| *F::coded(id, i / F::CHANNELS).channel(i % F::CHANNELS).unwrap()).collect();
            Dyn(Box::new(signal::from_interleaved_samples_iter::<_, F>(samples)))
        }
        Leaf::Equil => Dyn(Box::new(signal::equilibrium::<F>())),
        Leaf::Gen => Dyn(Box::new(signal::gen(move || F::coded(id, 0)))),
        Leaf::GenMut => {
            let c = Counters::default();
            w.probes.push((format!("genmut#{id}"), c.clone(), delay_above));
            let mut n = 0usize;
            Dyn(Box::new(signal::gen_mut(move || {
                c.pulls.set(c.pulls.get() + 1);
                let f = F::coded(id, n);
                n += 1;
                f
            })))
        }
    }
}

fn un_build<'a, F: Fr>(u: Un, child: Dyn<'a, F>, w: &mut Watch, delay_above: usize, expect: &Model<F>) -> Dyn<'a, F> {
    match u {
        Un::Map => Dyn(Box::new(child.map(F::map_fn))),
        Un::ScaleHalf => Dyn(Box::new(child.scale_amp(gain::<F>(0.5)))),
        Un::ScaleNeg => Dyn(Box::new(child.scale_amp(gain::<F>(-1.0)))),
        Un::ScaleZero => Dyn(Box::new(child.scale_amp(gain::<F>(0.0)))),
        Un::ScaleOne => Dyn(Box::new(child.scale_amp(gain::<F>(1.0)))),
        Un::ScaleBig => Dyn(Box::new(child.scale_amp(gain::<F>(4.0)))),
        Un::Offset => Dyn(Box::new(child.offset_amp(F::offset()))),
        Un::ScalePC => Dyn(Box::new(child.scale_amp_per_channel(F::scale_pc()))),
        Un::OffsetPC => Dyn(Box::new(child.offset_amp_per_channel(F::offset_pc()))),
        Un::Clip => Dyn(Box::new(child.clip_amp(F::clip_t()))),
        Un::ClipZero => Dyn(Box::new(child.clip_amp(<SgS<F> as Sample>::EQUILIBRIUM))),
        Un::Inspect => {
            // pre-reserved so that the harness-side log never allocates while the program runs (C07 audit)
            let log: Rc<RefCell<Vec<F>>> = Rc::new(RefCell::new(Vec::with_capacity(64)));
            let l2 = log.clone();
            let exp = expect.frames.clone();
            w.inspects.push(Box::new(move |k| {
                let want = k.saturating_sub(delay_above);
                let l = l2.borrow();
                if l.len() != want || l[..] != exp[..want.min(exp.len())] {
                    Some(format!("after {k} calls an inspect adaptor (under {delay_above} frames of delay) has seen {:?}, expected the {want} frames {:?}", &l[..], &exp[..want.min(exp.len())]))
                } else {
                    None
                }
            }));
            Dyn(Box::new(child.inspect(move |f| log.borrow_mut().push(*f))))
        }
        Un::Delay(k) => Dyn(Box::new(child.delay(k as usize))),
    }
}

/// Build the real signal of a unary program over frame type F.
pub fn build_unary<'a, F: Fr>(node: &Node, ext: &mut Ext<'a, F>, w: &mut Watch, delay_above: usize, id: &mut usize, h: usize) -> Dyn<'a, F> {
    match node {
        Node::L(l) => {
            *id += 1;
            leaf_build(*l, *id, ext, w, delay_above)
        }
        Node::U(u, c) => {
            let d2 = delay_above + if let Un::Delay(k) = u { *k as usize } else { 0 };
            let mut id_m = *id;
            let m = model_unary::<F>(c, h, &mut id_m);
            let child = build_unary::<F>(c, ext, w, d2, id, h);
            un_build(*u, child, w, delay_above, &m)
        }
        Node::B(..) => panic!("binary node in a unary position"),
    }
}

/// Build the real signal of a tree program over main family F.
pub fn build_tree<'a, F: Fr>(node: &Node, ext: &mut Ext<'a, F>, w: &mut Watch, delay_above: usize, id: &mut usize, h: usize) -> Dyn<'a, F>
where
    F::Signed: Fr,
    F::Float: Fr,
{
    match node {
        Node::L(_) => build_unary::<F>(node, ext, w, delay_above, id, h),
        Node::U(u, c) => {
            let d2 = delay_above + if let Un::Delay(k) = u { *k as usize } else { 0 };
            let mut id_m = *id;
            let m = model_tree::<F>(c, h, &mut id_m);
            let child = build_tree::<F>(c, ext, w, d2, id, h);
            un_build(*u, child, w, delay_above, &m)
        }
        Node::B(b, l, r) => {
            let a = build_tree::<F>(l, ext, w, delay_above, id, h);
            match b {
                Bin::Add => {
                    let o = build_unary::<F::Signed>(r, &mut Ext(None), w, delay_above, id, h);
                    Dyn(Box::new(a.add_amp(o)))
                }
                Bin::Mul => {
                    let o = build_unary::<F::Float>(r, &mut Ext(None), w, delay_above, id, h);
                    Dyn(Box::new(a.mul_amp(o)))
                }
                Bin::Zip => {
                    let o = build_tree::<F>(r, ext, w, delay_above, id, h);
                    Dyn(Box::new(a.zip_map(o, F::zip_fn)))
                }
            }
        }
    }
}

// ----------------------------------------------------------------- the runs
pub type Bad = Option<(String, String)>;
fn bad(k: &str, m: String) -> Bad {
    Some((k.to_string(), m))
}

pub fn horizon<F: Fr>(p: &Node) -> usize {
    p.longest_source(F::CHANNELS) + p.total_delay() + 3
}

/// C04: pointwise frames, lock-step pulls, inspect observations, by_ref resume.
pub fn run_c04<F: Fr>(p: &Node) -> Bad
where
    F::Signed: Fr,
    F::Float: Fr,
{
    let h = horizon::<F>(p);
    let m = model_tree::<F>(p, h, &mut 0);
    let mut w = Watch::default();
    let mut sig = build_tree::<F>(p, &mut Ext(None), &mut w, 0, &mut 0, h);
    if let Some(x) = w.check(0) {
        return bad("adaptor.pulls", format!("{} {}: before any call: {x}", F::NAME, p.show()));
    }
    for n in 0..h {
        let f = sig.next();
        if f != m.frames[n] {
            return bad("adaptor.frame", format!("{} {}: frame {n} = {f:?}, pointwise composition gives {:?}", F::NAME, p.show(), m.frames[n]));
        }
        if let Some(x) = w.check(n + 1) {
            return bad("adaptor.pulls", format!("{} {}: {x}", F::NAME, p.show()));
        }
    }
    drop(sig);
    // by_ref: build over a borrowed probe, run j steps, drop, the probe resumes at the right frame
    if let Leaf::Probe(len) = p.first_main_leaf() {
        // the external probe takes the id of the first leaf (1) and the delay on the left spine
        let mut spine_delay = 0;
        let mut q = p;
        loop {
            match q {
                Node::L(_) => break,
                Node::U(Un::Delay(k), c) => {
                    spine_delay += *k as usize;
                    q = c;
                }
                Node::U(_, c) => q = c,
                Node::B(_, l, _) => q = l,
            }
        }
        // (every prefix length for ordinary horizons; a structured set for the very long ones)
        let js: Vec<usize> = if h <= 3000 {
            (0..=h).collect()
        } else {
            let mut v = vec![0, 1, 2, spine_delay.saturating_sub(1), spine_delay, spine_delay + 1, spine_delay + len as usize, h / 2, h - 1, h];
            v.retain(|&j| j <= h);
            v.sort();
            v.dedup();
            v
        };
        for j in js {
            let (mut probe, c) = Probe::new((0..len as usize).map(|k| F::coded(1, k)).collect());
            {
                let mut w = Watch::default();
                let mut ext = Ext(Some(Dyn(Box::new(&mut probe))));
                let mut sig = build_tree::<F>(p, &mut ext, &mut w, 0, &mut 0, h);
                for n in 0..j {
                    let f = sig.next();
                    if f != m.frames[n] {
                        return bad("adaptor.by_ref", format!("{} {} over a borrowed source: frame {n} = {f:?}, expected {:?}", F::NAME, p.show(), m.frames[n]));
                    }
                }
            }
            let want = j.saturating_sub(spine_delay);
            let nxt = probe.next();
            let exp = if want < len as usize { F::coded(1, want) } else { F::EQUILIBRIUM };
            if c.pulls() != want + 1 || nxt != exp {
                return bad("adaptor.by_ref", format!("{} {}: after {j} calls through by_ref the borrowed source had been pulled {} times (expected {want}) and resumes with {nxt:?} (expected frame {want} = {exp:?})", F::NAME, p.show(), c.pulls() - 1));
            }
        }
    }
    None
}

/// C05: exhaustion algebra and the exact counts of the iterator adaptors.
pub fn run_c05<F: Fr>(p: &Node) -> Bad
where
    F::Signed: Fr,
    F::Float: Fr,
    F::Sample: Debug,
    <F as Frame>::Channels: Clone,
{
    let h = horizon::<F>(p);
    let m = model_tree::<F>(p, h + 4, &mut 0);
    let name = format!("{} {}", F::NAME, p.show());
    // 1. is_exhausted before / after every next(), K = 3 further calls
    {
        let mut w = Watch::default();
        let mut sig = build_tree::<F>(p, &mut Ext(None), &mut w, 0, &mut 0, h + 4);
        let calls = if m.t == usize::MAX { h } else { m.t + 3 };
        for k in 0..=calls {
            let e = sig.is_exhausted();
            if e != (k >= m.t) {
                return bad("exhaust.flag", format!("{name}: is_exhausted() = {e} after {k} calls, expected {} (exhausted from call {})", k >= m.t, m.t));
            }
            if k < calls {
                let f = sig.next();
                if f != m.frames[k] {
                    return bad("exhaust.frames", format!("{name}: frame {k} = {f:?}, expected {:?} (exhausted from call {})", m.frames[k], m.t));
                }
                let e2 = sig.is_exhausted();
                if e2 != (k + 1 >= m.t) {
                    return bad("exhaust.flag", format!("{name}: is_exhausted() = {e2} right after call {}, expected {}", k + 1, k + 1 >= m.t));
                }
            }
        }
    }
    // 1b. the same through a borrowed source (`Signal for &mut S` forwards next and is_exhausted)
    if let Leaf::Probe(len) = p.first_main_leaf() {
        let (mut probe, _c) = Probe::new((0..len as usize).map(|k| F::coded(1, k)).collect());
        let mut w = Watch::default();
        let mut ext = Ext(Some(Dyn(Box::new(&mut probe))));
        let mut sig = build_tree::<F>(p, &mut ext, &mut w, 0, &mut 0, h + 4);
        let calls = if m.t == usize::MAX { h } else { m.t + 2 };
        for k in 0..calls {
            let e = sig.is_exhausted();
            if e != (k >= m.t) {
                return bad("exhaust.by_ref", format!("{name} over a borrowed source: is_exhausted() = {e} after {k} calls, expected {}", k >= m.t));
            }
            let f = sig.next();
            if f != m.frames[k] {
                return bad("exhaust.by_ref", format!("{name} over a borrowed source: frame {k} = {f:?}, expected {:?}", m.frames[k]));
            }
        }
    }
    if m.t != usize::MAX {
        // 2. until_exhausted yields exactly t frames, then None for good
        let mut w = Watch::default();
        let sig = build_tree::<F>(p, &mut Ext(None), &mut w, 0, &mut 0, h + 4);
        let mut it = sig.until_exhausted();
        let mut got = Vec::new();
        for _ in 0..m.t + 4 {
            match it.next() {
                Some(f) => got.push(f),
                None => break,
            }
        }
        if got.len() != m.t || got[..] != m.frames[..m.t] || it.next().is_some() || it.next().is_some() || it.next().is_some() {
            return bad("exhaust.until_exhausted", format!("{name}: until_exhausted() yielded {} frames {got:?}, expected exactly {} {:?} and then None", got.len(), m.t, &m.frames[..m.t]));
        }
        // 3. interleaved samples: exactly frames x channels samples in channel order, then None
        let mut w = Watch::default();
        let sig = build_tree::<F>(p, &mut Ext(None), &mut w, 0, &mut 0, h + 4);
        let mut it = sig.into_interleaved_samples().into_iter();
        let exp: Vec<F::Sample> = m.frames[..m.t].iter().flat_map(|f| f.channels()).collect();
        let mut got = Vec::new();
        for _ in 0..exp.len() + 4 {
            match it.next() {
                Some(s) => got.push(s),
                None => break,
            }
        }
        if got != exp || it.next().is_some() || it.next().is_some() || it.next().is_some() {
            return bad("exhaust.interleaved", format!("{name}: into_interleaved_samples() yielded {} samples {got:?}, expected {} = {} frames x {} channels: {exp:?}", got.len(), exp.len(), m.t, F::CHANNELS));
        }
        // same through next_sample()
        let mut w = Watch::default();
        let sig = build_tree::<F>(p, &mut Ext(None), &mut w, 0, &mut 0, h + 4);
        let mut il = sig.into_interleaved_samples();
        let mut n = 0;
        while let Some(s) = il.next_sample() {
            if n >= exp.len() || s != exp[n] {
                return bad("exhaust.interleaved", format!("{name}: next_sample() #{n} = {s:?}, expected {:?}", exp.get(n)));
            }
            n += 1;
        }
        if n != exp.len() || il.next_sample().is_some() {
            return bad("exhaust.interleaved", format!("{name}: next_sample() yielded {n} samples, expected {}", exp.len()));
        }
        // mixed use: k samples through next_sample(), the rest through the iterator
        for k in 0..=exp.len().min(2 * F::CHANNELS + 1) {
            let mut w = Watch::default();
            let sig = build_tree::<F>(p, &mut Ext(None), &mut w, 0, &mut 0, h + 4);
            let mut il = sig.into_interleaved_samples();
            for j in 0..k {
                let s = il.next_sample();
                if s != Some(exp[j]) {
                    return bad("exhaust.interleaved", format!("{name}: next_sample() #{j} = {s:?}, expected {:?}", exp[j]));
                }
            }
            let mut it = il.into_iter();
            let mut got = Vec::new();
            for _ in 0..exp.len() - k + 4 {
                match it.next() {
                    Some(s) => got.push(s),
                    None => break,
                }
            }
            if got[..] != exp[k..] || it.next().is_some() || it.next().is_some() {
                return bad("exhaust.interleaved", format!("{name}: after {k} samples through next_sample(), into_iter() yielded {} samples {got:?}, expected the remaining {}: {:?}, then None for good", got.len(), exp.len() - k, &exp[k..]));
            }
        }
        // a clone taken after k samples (also in the middle of a frame) continues exactly like the
        // original; over a concrete cloneable source that replays the program's frames
        for k in 0..=exp.len().min(2 * F::CHANNELS + 1) {
            let frames: Vec<F> = m.frames[..m.t].to_vec();
            let mut il = signal::from_iter(frames.into_iter()).into_interleaved_samples();
            for _ in 0..k {
                il.next_sample();
            }
            let mut c1 = il.clone();
            let mut c2 = il.clone().into_iter();
            let mut c3 = il.into_iter().clone();
            for j in k..exp.len() + 2 {
                let want = exp.get(j).copied();
                let got = [c1.next_sample(), c2.next(), c3.next()];
                if got.iter().any(|g| *g != want) {
                    return bad("exhaust.interleaved", format!("{name}: clones of into_interleaved_samples() taken after {k} samples (the sample source / its iterator / a clone of the iterator): sample #{j} = {got:?}, expected {want:?} as from the original"));
                }
            }
        }
        // the Iterator protocol (nth, skip, step_by, count, last, size_hint) of the three iterator
        // adaptors agrees with next(); for the small programs only (each check rebuilds the tree
        // a few hundred times)
        if p.size() <= 2 && m.t <= 8 {
            let fresh = || {
                let mut w = Watch::default();
                build_tree::<F>(p, &mut Ext(None), &mut w, 0, &mut 0, h + 4)
            };
            if let Some(x) = common::iterproto::check(&|| fresh().until_exhausted(), &m.frames[..m.t], false) {
                return bad("exhaust.iterator", format!("{name}: until_exhausted(): {x}"));
            }
            if let Some(x) = common::iterproto::check(&|| fresh().take(m.t + 1), &m.frames[..m.t + 1], true) {
                return bad("exhaust.iterator", format!("{name}: take({}): {x}", m.t + 1));
            }
            if let Some(x) = common::iterproto::check(&|| fresh().into_interleaved_samples().into_iter(), &exp, false) {
                return bad("exhaust.iterator", format!("{name}: into_interleaved_samples().into_iter(): {x}"));
            }
        }
        // 4. lift: the iterator is handed to the closure as the first leaf
        if let Leaf::Iter(len) = p.first_main_leaf() {
            let frames: Vec<F> = (0..len as usize).map(|k| F::coded(1, k)).collect();
            let mut w = Watch::default();
            let mut it = signal::lift(frames, |s| build_tree::<F>(p, &mut Ext(Some(Dyn(Box::new(s)))), &mut w, 0, &mut 0, h + 4));
            let mut got = Vec::new();
            for _ in 0..m.t + 4 {
                match it.next() {
                    Some(f) => got.push(f),
                    None => break,
                }
            }
            if got.len() != m.t || got[..] != m.frames[..m.t] || it.next().is_some() || it.next().is_some() || it.next().is_some() {
                return bad("exhaust.lift", format!("{name}: lift() yielded {} frames, expected exactly {}", got.len(), m.t));
            }
        }
    }
    // 5. take(n) yields exactly n frames, whatever the exhaustion state
    let l = if m.t == usize::MAX { 2 } else { m.t };
    let ns: Vec<usize> = if l <= 3000 { (0..=l + 2).collect() } else { vec![0, 1, 2, l / 2, l - 1, l, l + 1, l + 2] };
    for n in ns {
        let mut w = Watch::default();
        let sig = build_tree::<F>(p, &mut Ext(None), &mut w, 0, &mut 0, h + 4);
        let mut it = sig.take(n);
        let mut got = Vec::new();
        for _ in 0..n + 3 {
            match it.next() {
                Some(f) => got.push(f),
                None => break,
            }
        }
        if got.len() != n || got[..] != m.frames[..n] || it.next().is_some() {
            return bad("exhaust.take", format!("{name}: take({n}) yielded {} frames {got:?}, expected the first {n} frames {:?}", got.len(), &m.frames[..n]));
        }
    }
    None
}

// ------------------------------------------------------------- enumeration
pub fn leaves(quick: bool, ch: usize) -> Vec<Leaf> {
    let ch = ch as u32;
    if quick {
        vec![Leaf::Probe(0), Leaf::Probe(1), Leaf::Probe(3), Leaf::Iter(2), Leaf::Inter(2 * ch + 1), Leaf::Equil, Leaf::GenMut]
    } else {
        vec![Leaf::Probe(0), Leaf::Probe(1), Leaf::Probe(2), Leaf::Probe(3), Leaf::Iter(0), Leaf::Iter(1), Leaf::Iter(2), Leaf::Iter(3), Leaf::Inter(0), Leaf::Inter(ch), Leaf::Inter(2 * ch + 1), Leaf::Equil, Leaf::Gen, Leaf::GenMut]
    }
}

/// unary stacks of exactly `depth` adaptors over each leaf
pub fn stacks(depth: usize, ls: &[Leaf]) -> Vec<Node> {
    let mut cur: Vec<Node> = ls.iter().map(|l| Node::L(*l)).collect();
    for _ in 0..depth {
        let mut nxt = Vec::with_capacity(cur.len() * UNARY.len());
        for c in &cur {
            for u in UNARY {
                nxt.push(Node::U(u, Box::new(c.clone())));
            }
        }
        cur = nxt;
    }
    cur
}

/// all trees of depth <= 1 (a leaf, a unary over a leaf, a binary over leaves)
pub fn depth1(ls: &[Leaf]) -> Vec<Node> {
    let mut v: Vec<Node> = ls.iter().map(|l| Node::L(*l)).collect();
    v.extend(stacks(1, ls));
    for b in BINARY {
        for l in ls {
            for r in ls {
                v.push(Node::B(b, Box::new(Node::L(*l)), Box::new(Node::L(*r))));
            }
        }
    }
    v
}

/// all trees of depth exactly 2 whose children have depth <= 1; right operands
/// of add/mul are unary stacks of depth <= 1 in the companion family
pub fn depth2(ls: &[Leaf]) -> Vec<Node> {
    let d1 = depth1(ls);
    let is_d1 = |n: &Node| !matches!(n, Node::L(_));
    let mut un1: Vec<Node> = ls.iter().map(|l| Node::L(*l)).collect();
    un1.extend(stacks(1, ls));
    let mut v = Vec::new();
    for c in d1.iter().filter(|n| is_d1(n)) {
        for u in UNARY {
            v.push(Node::U(u, Box::new(c.clone())));
        }
    }
    for l in &d1 {
        for r in &un1 {
            if is_d1(l) || is_d1(r) {
                v.push(Node::B(Bin::Add, Box::new(l.clone()), Box::new(r.clone())));
                v.push(Node::B(Bin::Mul, Box::new(l.clone()), Box::new(r.clone())));
            }
        }
        for r in &d1 {
            if is_d1(l) || is_d1(r) {
                v.push(Node::B(Bin::Zip, Box::new(l.clone()), Box::new(r.clone())));
            }
        }
    }
    v
}

/// scale probes: long sources and long delays (byte boundary included) under every adaptor
pub fn long_programs(ch: usize) -> Vec<Node> {
    let ch = ch as u32;
    let mut v = depth1(&[Leaf::Probe(70), Leaf::Iter(300), Leaf::Inter(64 * ch + ch - 1), Leaf::GenMut]);
    let l = |x: Leaf| Box::new(Node::L(x));
    // amplitudes beyond full scale (float frames legitimately exceed [-1, 1]): gain 4 below and above
    // every adaptor and beside every binary one
    let big = |c: Box<Node>| Node::U(Un::ScaleBig, c);
    for leaf in [Leaf::Probe(3), Leaf::Iter(2), Leaf::GenMut] {
        v.push(big(l(leaf)));
        v.push(big(Box::new(big(l(leaf)))));
        for u in UNARY {
            v.push(Node::U(u, Box::new(big(l(leaf)))));
            v.push(big(Box::new(Node::U(u, l(leaf)))));
        }
        for b in BINARY {
            v.push(Node::B(b, Box::new(big(l(leaf))), l(Leaf::Probe(3))));
            v.push(Node::B(b, l(Leaf::Probe(3)), Box::new(big(l(leaf)))));
            v.push(big(Box::new(Node::B(b, l(leaf), l(Leaf::Iter(2))))));
        }
    }
    // 16-bit boundary: delays of 2^16 +- 1 frames run to the end (a count kept in 16 bits would wrap)
    for k in [1024u32, 4096, 44100, 48000, 65535, 65536, 65537] {
        let d = |c: Box<Node>| Node::U(Un::Delay(k), c);
        v.push(d(l(Leaf::Probe(3))));
        v.push(d(l(Leaf::Iter(2))));
        v.push(Node::U(Un::Map, Box::new(d(l(Leaf::Probe(3))))));
        v.push(d(Box::new(Node::U(Un::Clip, l(Leaf::Probe(3))))));
        v.push(Node::B(Bin::Add, Box::new(d(l(Leaf::Probe(3)))), l(Leaf::Probe(70))));
        v.push(d(Box::new(d(l(Leaf::Probe(2))))));
    }
    // the smallest threshold: clip_amp(0) limits every channel to equilibrium
    for leaf in [Leaf::Probe(3), Leaf::Iter(2), Leaf::GenMut] {
        v.push(Node::U(Un::ClipZero, l(leaf)));
        for u in UNARY {
            v.push(Node::U(u, Box::new(Node::U(Un::ClipZero, l(leaf)))));
            v.push(Node::U(Un::ClipZero, Box::new(Node::U(u, l(leaf)))));
        }
        for b in BINARY {
            v.push(Node::B(b, Box::new(Node::U(Un::ClipZero, l(leaf))), l(Leaf::Probe(3))));
            v.push(Node::U(Un::ClipZero, Box::new(Node::B(b, l(leaf), l(Leaf::Iter(2))))));
        }
    }
    for k in [31u32, 255, 256, 257, 1000] {
        let d = |c: Box<Node>| Node::U(Un::Delay(k), c);
        for leaf in [Leaf::Probe(3), Leaf::Probe(70), Leaf::Iter(2), Leaf::GenMut] {
            v.push(d(l(leaf)));
        }
        for u in UNARY {
            v.push(Node::U(u, Box::new(d(l(Leaf::Probe(3))))));
            v.push(d(Box::new(Node::U(u, l(Leaf::Probe(3))))));
        }
        for b in BINARY {
            v.push(Node::B(b, Box::new(d(l(Leaf::Probe(3)))), l(Leaf::Probe(70))));
            v.push(Node::B(b, l(Leaf::Probe(70)), Box::new(d(l(Leaf::Probe(3))))));
            v.push(d(Box::new(Node::B(b, l(Leaf::Probe(3)), l(Leaf::Iter(2))))));
        }
    }
    v
}

/// every interleaved sample count 0..=3N+1 as a bare leaf and under one adaptor
pub fn interleaved_lengths(ch: usize) -> Vec<Node> {
    let mut v = Vec::new();
    for ns in 0..=(3 * ch + 1) as u32 {
        v.push(Node::L(Leaf::Inter(ns)));
        v.push(Node::U(Un::ScaleHalf, Box::new(Node::L(Leaf::Inter(ns)))));
        v.push(Node::U(Un::Delay(1), Box::new(Node::L(Leaf::Inter(ns)))));
    }
    v
}

/// every tree of depth <= `depth` over a SMALL alphabet (used for depth 3 in the thorough tier):
/// children of any depth below, right operands of add/mul are unary stacks of depth <= 1
pub fn small_trees(depth: usize, ls: &[Leaf], uns: &[Un]) -> Vec<Node> {
    let leaves: Vec<Node> = ls.iter().map(|l| Node::L(*l)).collect();
    let mut un1 = leaves.clone();
    for l in &leaves {
        for u in uns {
            un1.push(Node::U(*u, Box::new(l.clone())));
        }
    }
    let mut cur = leaves.clone();
    for _ in 0..depth {
        let mut nxt = leaves.clone();
        for c in &cur {
            for u in uns {
                nxt.push(Node::U(*u, Box::new(c.clone())));
            }
        }
        for l in &cur {
            for r in &un1 {
                nxt.push(Node::B(Bin::Add, Box::new(l.clone()), Box::new(r.clone())));
                nxt.push(Node::B(Bin::Mul, Box::new(l.clone()), Box::new(r.clone())));
            }
            for r in &cur {
                nxt.push(Node::B(Bin::Zip, Box::new(l.clone()), Box::new(r.clone())));
            }
        }
        nxt.sort_by_key(|n| n.show());
        nxt.dedup();
        cur = nxt;
    }
    cur
}

/// C05 scale probe: the end-of-stream clauses for very wide frames (`[i32; N]`, N up to 65537):
/// `n` complete frames plus `r` trailing samples through from_interleaved_samples_iter,
/// until_exhausted, into_interleaved_samples (iterator and next_sample), take, add_amp of two
/// wide sources of different length.
pub fn wide_case<const N: usize>(n: usize, r: usize) -> Bad {
    let name = format!("[i32;{N}] frames={n} trailing_samples={r}");
    let frame_of = |f: usize| -> [i32; N] {
        let mut a = [0i32; N];
        for (c, s) in a.iter_mut().enumerate() {
            *s = (f * N + c) as i32 + 1;
        }
        a
    };
    let frames: Vec<[i32; N]> = (0..n).map(frame_of).collect();
    let total = n * N + r;
    // (a) interleaved samples -> frames: exactly the complete frames, then exhausted, then equilibrium
    {
        let mut sig = signal::from_interleaved_samples_iter::<_, [i32; N]>((0..total).map(|k| k as i32 + 1));
        for k in 0..n + 3 {
            let e = sig.is_exhausted();
            if e != (k >= n) {
                return bad("wide.from_interleaved", format!("{name}: is_exhausted() = {e} after {k} calls, expected {}", k >= n));
            }
            let f = sig.next();
            let exp = if k < n { frames[k] } else { <[i32; N]>::EQUILIBRIUM };
            if f != exp {
                let c = (0..N).find(|&c| f[c] != exp[c]).unwrap();
                return bad("wide.from_interleaved", format!("{name}: frame {k} channel {c} = {}, expected {}", f[c], exp[c]));
            }
        }
        let it = signal::from_interleaved_samples_iter::<_, [i32; N]>((0..total).map(|k| k as i32 + 1)).until_exhausted();
        let cnt = it.take(n + 4).count();
        if cnt != n {
            return bad("wide.until_exhausted", format!("{name}: until_exhausted() over the interleaved source yielded {cnt} frames, expected {n}"));
        }
    }
    // (b) frames -> interleaved samples: exactly n*N samples in channel order, then None for good
    {
        let mut il = signal::from_iter(frames.iter().cloned()).into_interleaved_samples();
        for k in 0..n * N {
            match il.next_sample() {
                Some(s) if s == k as i32 + 1 => {}
                other => return bad("wide.interleaved", format!("{name}: next_sample() #{k} = {other:?}, expected Some({})", k + 1)),
            }
        }
        for j in 0..3 {
            if let Some(s) = il.next_sample() {
                return bad("wide.interleaved", format!("{name}: next_sample() returned Some({s}) on call {} after all {} samples, expected None", j + 1, n * N));
            }
        }
        let mut it = signal::from_iter(frames.iter().cloned()).into_interleaved_samples().into_iter();
        let mut cnt = 0usize;
        while cnt < n * N + 4 {
            match it.next() {
                Some(s) => {
                    if cnt >= n * N || s != cnt as i32 + 1 {
                        return bad("wide.interleaved", format!("{name}: interleaved iterator item #{cnt} = {s}, expected {}", if cnt < n * N { format!("{}", cnt + 1) } else { "None".into() }));
                    }
                    cnt += 1;
                }
                None => break,
            }
        }
        if cnt != n * N || it.next().is_some() {
            return bad("wide.interleaved", format!("{name}: interleaved iterator yielded {cnt} samples, expected {}", n * N));
        }
    }
    // (c) take(k) and a combining adaptor over wide frames
    for k in 0..=n + 1 {
        let got: Vec<[i32; N]> = signal::from_iter(frames.iter().cloned()).take(k).collect();
        let ok = got.len() == k && (0..k).all(|j| got[j] == if j < n { frames[j] } else { <[i32; N]>::EQUILIBRIUM });
        if !ok {
            return bad("wide.take", format!("{name}: take({k}) yielded {} frames or wrong contents", got.len()));
        }
    }
    {
        let shorter = n.saturating_sub(1);
        let a = signal::from_iter(frames.iter().cloned());
        let b = signal::from_iter(frames.iter().take(shorter).cloned());
        let got: Vec<[i32; N]> = a.add_amp(b).until_exhausted().take(n + 4).collect();
        if got.len() != shorter || (0..shorter).any(|j| (0..N).any(|c| got[j][c] != frames[j][c].wrapping_mul(2))) {
            return bad("wide.add_amp", format!("{name}: add_amp of sources of {n} and {shorter} frames yielded {} frames (expected {shorter}) or wrong sums", got.len()));
        }
    }
    None
}

pub const WIDE_QUICK: [usize; 15] = [4, 16, 31, 32, 33, 64, 255, 256, 257, 300, 512, 1000, 65535, 65536, 65537];
pub const WIDE_THOROUGH: [usize; 5] = [127, 128, 129, 1024, 4096];

pub fn wide_dispatch(ch: usize, n: usize, r: usize) -> Bad {
    macro_rules! d {
        ($($N:literal)*) => {
            match ch {
                $($N => wide_case::<$N>(n, r),)*
                _ => bad("wide", format!("unsupported channel count {ch}")),
            }
        };
    }
    d!(4 16 31 32 33 64 255 256 257 300 512 1000 127 128 129 1024 4096 65535 65536 65537)
}

/// Scale probe for delay(k) with k far beyond any horizon that can be run to the end
/// (2^16 .. usize::MAX): the first `calls` frames must be equilibrium, the source must not be
/// pulled, and the delay must not report exhaustion while it is still emitting its silence —
/// also over an already exhausted source and with an adaptor above / below.
pub const HUGE_DELAYS: [usize; 9] = [1 << 16, (1 << 16) + 1, (1 << 31) + 1, 1 << 32, (1 << 32) + 3, (1 << 48) + 2, 1 << 63, usize::MAX - 1, usize::MAX];
pub fn huge_delay_case(k: usize, src_len: usize, shape: usize) -> Bad {
    let name = format!("delay({k}) over a probe of {src_len} frames, shape {shape}");
    let frames: Vec<[i16; 2]> = (0..src_len).map(|n| <[i16; 2]>::coded(1, n)).collect();
    let (mut probe, c) = Probe::new(frames);
    let calls = 40usize;
    let mut sig: Dyn<[i16; 2]> = match shape {
        0 => Dyn(Box::new((&mut probe).delay(k))),
        1 => Dyn(Box::new((&mut probe).delay(k).scale_amp(1.0))),
        2 => Dyn(Box::new((&mut probe).offset_amp(0).delay(k))),
        3 => Dyn(Box::new((&mut probe).delay(k).delay(1))),
        _ => Dyn(Box::new((&mut probe).delay(k).add_amp(signal::equilibrium::<[i16; 2]>()))),
    };
    for j in 0..calls {
        if sig.is_exhausted() {
            return bad("adaptor.huge_delay", format!("{name}: is_exhausted() = true after {j} calls, while the delay still owes {} frames of silence", k - j.min(k)));
        }
        let f = sig.next();
        if f != [0i16; 2] {
            return bad("adaptor.huge_delay", format!("{name}: frame {j} = {f:?}, expected equilibrium"));
        }
        if c.pulls() != 0 {
            return bad("adaptor.huge_delay", format!("{name}: the source was pulled {} times after {} calls, expected 0 while the delay emits silence", c.pulls(), j + 1));
        }
    }
    None
}
