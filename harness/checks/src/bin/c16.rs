//! C16 — stock graph nodes (Sum, SumBuffers, Pass, Delay, signal node) and
//! every wrapper type, driven inside small real graphs fed by position-coded
//! source nodes.

use checks::probe::Gen;
use common::{catch, guard, json, Ctx, Value};
use dasp_graph::node::{Delay, GraphNode, Pass, Sum, SumBuffers};
use dasp_graph::{BoxedNode, BoxedNodeSend, Buffer, Input, Node, NodeData, Processor};
use dasp_ring_buffer::Fixed;
use dasp_signal::Signal;
use petgraph::graph::{Graph, NodeIndex};
use std::marker::PhantomData;
use std::sync::atomic::{AtomicUsize, Ordering::SeqCst};

const SENTINEL: f32 = -77.0;
const LEN: usize = Buffer::LEN;

type DynNode<'a> = Box<dyn Node + 'a>;
type G<'a> = Graph<NodeData<DynNode<'a>>, ()>;
type Bad = (String, String);

/// value written by source `k` into buffer `b`, sample `t`, on call `c` (dyadic)
fn src_val(k: usize, b: usize, t: usize, c: usize) -> f32 {
    // (k mod 16 keeps the sum over several hundred inputs below 2^14, hence exact with 10 fractional bits)
    (k % 16 + 1) as f32 * 0.5 + b as f32 * 0.125 + t as f32 / 1024.0 + c as f32 * 4.0
}

struct Src {
    k: usize,
    calls: usize,
}
impl Node for Src {
    fn process(&mut self, _inputs: &[Input], output: &mut [Buffer]) {
        for (b, o) in output.iter_mut().enumerate() {
            for t in 0..LEN {
                o[t] = src_val(self.k, b, t, self.calls);
            }
        }
        self.calls += 1;
    }
}

fn noop(_i: &[Input], _o: &mut [Buffer]) {}

/// buffer count of the corresponding node inside a nested graph (wrapper 9 makes them differ)
fn inner_count(wrapper: usize, outer: usize) -> usize {
    if wrapper == 9 {
        (outer + 1) % 4
    } else {
        outer
    }
}
fn sum_fn(i: &[Input], o: &mut [Buffer]) {
    Counted(Sum).process(i, o)
}
fn sumbuf_fn(i: &[Input], o: &mut [Buffer]) {
    Counted(SumBuffers).process(i, o)
}
fn pass_fn(i: &[Input], o: &mut [Buffer]) {
    Counted(Pass).process(i, o)
}

#[derive(Clone, Copy, Debug, PartialEq, Eq)]
enum Kind {
    Sum,
    SumBuffers,
    Pass,
}
const WRAPPERS: [&str; 11] = ["plain", "BoxedNode", "BoxedNodeSend", "Box<Box<T>>", "&mut T", "fn pointer", "Box<dyn Fn>", "Box<dyn FnMut>", "GraphNode", "GraphNode with different inner buffer counts", "GraphNode with one more declared input port than connected inputs"];

/// Every wrapped stock node counts its invocations: a wrapper must run the node it wraps exactly once
/// per process call, whatever the number of inputs or output buffers (a node without output buffers
/// may still act through its inputs).
static INVOKED: AtomicUsize = AtomicUsize::new(0);
struct Counted<T>(T);
impl<T: Node> Node for Counted<T> {
    fn process(&mut self, inputs: &[Input], output: &mut [Buffer]) {
        INVOKED.fetch_add(1, SeqCst);
        self.0.process(inputs, output)
    }
}

fn sentinel_bufs(n: usize) -> Vec<Buffer> {
    vec![Buffer::from([SENTINEL; LEN]); n]
}

/// expected output buffers of a stateless node after a call, given the inputs' buffers
fn expect_stateless(kind: Kind, ins: &[Vec<Vec<f32>>], prev_out: &[Vec<f32>]) -> Vec<Vec<f32>> {
    let n_out = prev_out.len();
    match kind {
        Kind::Sum => (0..n_out)
            .map(|ch| (0..LEN).map(|t| ins.iter().filter_map(|i| i.get(ch)).map(|b| b[t]).sum()).collect())
            .collect(),
        Kind::SumBuffers => (0..n_out).map(|_| (0..LEN).map(|t| ins.iter().flat_map(|i| i.iter()).map(|b| b[t]).sum()).collect()).collect(),
        Kind::Pass => match ins.first() {
            None => prev_out.to_vec(),
            Some(i) => (0..n_out).map(|ch| if ch < i.len() { i[ch].clone() } else { prev_out[ch].clone() }).collect(),
        },
    }
}

/// One stateless-node configuration under one wrapper, three calls.
fn stateless_case(kind: Kind, wrapper: usize, in_bufs: &[usize], n_out: usize) -> Option<Bad> {
    let tag = format!("{kind:?} wrapped as {} with inputs {in_bufs:?} buffers and {n_out} output buffers", WRAPPERS[wrapper]);
    // Pass with two inputs: which one it forwards is not fixed by the property (see below)
    if kind == Kind::Pass && wrapper == 10 && !in_bufs.is_empty() {
        return None;
    }
    // the &mut wrapper borrows these
    let (mut s1, mut s2, mut s3) = (Counted(Sum), Counted(SumBuffers), Counted(Pass));
    let mut g: G = Graph::with_capacity(12, 12);
    let srcs: Vec<NodeIndex> = in_bufs.iter().enumerate().map(|(k, &nb)| g.add_node(NodeData::new(Box::new(Src { k, calls: 0 }) as DynNode, sentinel_bufs(nb)))).collect();
    let node: DynNode = match (wrapper, kind) {
        (0, Kind::Sum) => Box::new(Counted(Sum)),
        (0, Kind::SumBuffers) => Box::new(Counted(SumBuffers)),
        (0, Kind::Pass) => Box::new(Counted(Pass)),
        (1, Kind::Sum) => Box::new(BoxedNode::new(Counted(Sum))),
        (1, Kind::SumBuffers) => Box::new(BoxedNode::new(Counted(SumBuffers))),
        (1, Kind::Pass) => Box::new(BoxedNode::new(Counted(Pass))),
        (2, Kind::Sum) => Box::new(BoxedNodeSend::new(Counted(Sum))),
        (2, Kind::SumBuffers) => Box::new(BoxedNodeSend::new(Counted(SumBuffers))),
        (2, Kind::Pass) => Box::new(BoxedNodeSend::new(Counted(Pass))),
        (3, Kind::Sum) => Box::new(Box::new(Counted(Sum))),
        (3, Kind::SumBuffers) => Box::new(Box::new(Counted(SumBuffers))),
        (3, Kind::Pass) => Box::new(Box::new(Counted(Pass))),
        (4, Kind::Sum) => Box::new(&mut s1),
        (4, Kind::SumBuffers) => Box::new(&mut s2),
        (4, Kind::Pass) => Box::new(&mut s3),
        (5, Kind::Sum) => Box::new(sum_fn as fn(&[Input], &mut [Buffer])),
        (5, Kind::SumBuffers) => Box::new(sumbuf_fn as fn(&[Input], &mut [Buffer])),
        (5, Kind::Pass) => Box::new(pass_fn as fn(&[Input], &mut [Buffer])),
        (6, k) => {
            let f: Box<dyn Fn(&[Input], &mut [Buffer])> = match k {
                Kind::Sum => Box::new(|i, o| Counted(Sum).process(i, o)),
                Kind::SumBuffers => Box::new(|i, o| Counted(SumBuffers).process(i, o)),
                Kind::Pass => Box::new(|i, o| Counted(Pass).process(i, o)),
            };
            Box::new(f)
        }
        (7, k) => {
            let mut calls = 0usize;
            let f: Box<dyn FnMut(&[Input], &mut [Buffer])> = match k {
                Kind::Sum => Box::new(move |i, o| {
                    calls += 1;
                    Counted(Sum).process(i, o)
                }),
                Kind::SumBuffers => Box::new(move |i, o| {
                    calls += 1;
                    Counted(SumBuffers).process(i, o)
                }),
                Kind::Pass => Box::new(move |i, o| {
                    calls += 1;
                    Counted(Pass).process(i, o)
                }),
            };
            Box::new(f)
        }
        (_, k) => {
            // nested graph: one placeholder per outer input (buffers overwritten by GraphNode), feeding the node
            let mut inner: Graph<NodeData<DynNode<'static>>, ()> = Graph::with_capacity(8, 8);
            let ins: Vec<NodeIndex> = in_bufs.iter().map(|&nb| inner.add_node(NodeData::new(Box::new(noop as fn(&[Input], &mut [Buffer])) as DynNode, sentinel_bufs(inner_count(wrapper, nb))))).collect();
            let t: DynNode<'static> = match k {
                Kind::Sum => Box::new(Counted(Sum)),
                Kind::SumBuffers => Box::new(Counted(SumBuffers)),
                Kind::Pass => Box::new(Counted(Pass)),
            };
            let out = inner.add_node(NodeData::new(t, sentinel_bufs(inner_count(wrapper, n_out))));
            // wrapper 10: a further declared input port that the outer graph never feeds; it keeps the
            // buffers it was created with and the nested graph must still be processed
            let extra = if wrapper == 10 { Some(inner.add_node(NodeData::new(Box::new(noop as fn(&[Input], &mut [Buffer])) as DynNode, sentinel_bufs(1)))) } else { None };
            let mut ins = ins;
            if let Some(e) = extra {
                ins.push(e);
            }
            // petgraph yields incoming neighbours newest-edge-first; add edges in reverse so the order matches the flat graph
            for &i in ins.iter() {
                inner.add_edge(i, out, ());
            }
            Box::new(GraphNode { processor: Processor::with_capacity(8), graph: inner, input_nodes: ins, output_node: out, node_type: PhantomData::<DynNode<'static>> })
        }
    };
    let t = g.add_node(NodeData::new(node, sentinel_bufs(n_out)));
    // petgraph yields incoming neighbours newest-edge-first: add the outer edges in reverse so that
    // inputs[j] comes from source j, the order GraphNode's input_nodes are listed in
    for &s in srcs.iter().rev() {
        g.add_edge(s, t, ());
    }
    // GraphNode maps outer inputs to inner placeholders by position in the `inputs` slice, i.e. in
    // petgraph's incoming order (newest edge first); Pass reads inputs[0]. The reference follows the
    // order the node actually receives, which the property leaves open: only single-input Pass is checked.
    let mut p = Processor::<G>::with_capacity(12);
    let mut prev: Vec<Vec<f32>> = vec![vec![SENTINEL; LEN]; n_out];
    let mut prev_inner: Vec<Vec<f32>> = Vec::new();
    for call in 0..3 {
        let before = INVOKED.load(SeqCst);
        if let Err(e) = catch(|| p.process(&mut g, t)) {
            return Some(("node.panic".into(), format!("{tag}: call {call} panicked: {e}")));
        }
        let ran = INVOKED.load(SeqCst) - before;
        if ran != 1 {
            return Some(("node.invoked".into(), format!("{tag}: call {call}: the wrapped node ran {ran} times, expected exactly once")));
        }
        let ins: Vec<Vec<Vec<f32>>> = in_bufs.iter().enumerate().map(|(k, &nb)| (0..nb).map(|b| (0..LEN).map(|tt| src_val(k, b, tt, call)).collect()).collect()).collect();
        let exp = if wrapper == 9 {
            // the inner node sees placeholders with a different buffer count: channels the outer input
            // has are copied in, the others keep the sentinel; the outer node receives min(outer, inner)
            // of the inner output's buffers and keeps the rest
            let inner_ins: Vec<Vec<Vec<f32>>> = ins
                .iter()
                .zip(in_bufs.iter())
                .map(|(i, &nb)| (0..inner_count(9, nb)).map(|b| if b < nb { i[b].clone() } else { vec![SENTINEL; LEN] }).collect())
                .collect();
            let n_in_out = inner_count(9, n_out);
            while prev_inner.len() < n_in_out {
                prev_inner.push(vec![SENTINEL; LEN]);
            }
            let inner_out = expect_stateless(kind, &inner_ins, &prev_inner);
            prev_inner = inner_out.clone();
            (0..n_out).map(|ch| if ch < n_in_out { inner_out[ch].clone() } else { prev[ch].clone() }).collect()
        } else if wrapper == 10 {
            let mut with_extra = ins.clone();
            with_extra.push(vec![vec![SENTINEL; LEN]]);
            expect_stateless(kind, &with_extra, &prev)
        } else {
            expect_stateless(kind, &ins, &prev)
        };
        let got: Vec<Vec<f32>> = g[t].buffers.iter().map(|b| b.to_vec()).collect();
        if got != exp {
            let ch = (0..n_out).find(|&c| got[c] != exp[c]).unwrap_or(0);
            let tt = (0..LEN).find(|&x| got[ch][x] != exp[ch][x]).unwrap_or(0);
            return Some((format!("node.{kind:?}"), format!("{tag}: call {call}: output buffer {ch} sample {tt} = {}, expected {}", got[ch][tt], exp[ch][tt])));
        }
        prev = got;
    }
    None
}

/// Delay node: per-channel ring lengths, mismatched channel counts, 4 calls.
fn delay_case(lens: &[usize], n_in: usize, n_out: usize, wrapper: usize) -> Option<Bad> {
    delay_case_calls(lens, n_in, n_out, wrapper, 4)
}

fn delay_case_calls(lens: &[usize], n_in: usize, n_out: usize, wrapper: usize, calls: usize) -> Option<Bad> {
    delay_case_off(lens, n_in, n_out, wrapper, calls, 0, 0)
}

/// `off`: the rings had an earlier life -- their first index is `off % len` when the node gets them,
/// reached by `how` = 0: set_first, 1: that many pushes, 2: into_raw_parts / from_raw_parts
fn delay_case_off(lens: &[usize], n_in: usize, n_out: usize, wrapper: usize, calls: usize, off: usize, how: usize) -> Option<Bad> {
    let tag = format!("Delay rings {lens:?}{} input buffers {n_in} output buffers {n_out} wrapper {}", if off == 0 { String::new() } else { format!(" (first index moved to {off} mod len by {})", ["set_first", "earlier pushes", "from_raw_parts"][how]) }, ["plain", "BoxedNode", "Box<dyn FnMut>", "GraphNode"][wrapper]);
    // raw slot i of channel c holds a coded value; logical position p of the initial content is raw slot (off + p) % l
    let raw = |c: usize, i: usize| -((c * 1000 + i + 1) as f32) / 256.0;
    let rings = || -> Vec<Fixed<Vec<f32>>> {
        lens.iter()
            .enumerate()
            .map(|(c, &l)| {
                let o = off % l;
                match how {
                    0 => {
                        let mut r = Fixed::from((0..l).map(|i| raw(c, i)).collect::<Vec<f32>>());
                        r.set_first(o);
                        r
                    }
                    1 => {
                        // o pushes of the values that belong at the end of the logical order
                        let mut r = Fixed::from((0..l).map(|i| if i < o { 0.0 } else { raw(c, i) }).collect::<Vec<f32>>());
                        for i in 0..o {
                            r.push(raw(c, i));
                        }
                        r
                    }
                    _ => {
                        let (_, data) = Fixed::from((0..l).map(|i| raw(c, i)).collect::<Vec<f32>>()).into_raw_parts();
                        Fixed::from_raw_parts(o, data)
                    }
                }
            })
            .collect()
    };
    let mut g: G = Graph::with_capacity(4, 4);
    let s = g.add_node(NodeData::new(Box::new(Src { k: 0, calls: 0 }) as DynNode, sentinel_bufs(n_in)));
    let node: DynNode = match wrapper {
        0 => Box::new(Delay(rings())),
        1 => Box::new(BoxedNode::new(Delay(rings()))),
        2 => {
            let mut d = Delay(rings());
            let f: Box<dyn FnMut(&[Input], &mut [Buffer])> = Box::new(move |i, o| d.process(i, o));
            Box::new(f)
        }
        _ => {
            let mut inner: Graph<NodeData<DynNode<'static>>, ()> = Graph::with_capacity(4, 4);
            let i = inner.add_node(NodeData::new(Box::new(noop as fn(&[Input], &mut [Buffer])) as DynNode, sentinel_bufs(n_in)));
            let o = inner.add_node(NodeData::new(Box::new(Delay(rings())) as DynNode, sentinel_bufs(n_out)));
            inner.add_edge(i, o, ());
            Box::new(GraphNode { processor: Processor::with_capacity(4), graph: inner, input_nodes: vec![i], output_node: o, node_type: PhantomData::<DynNode<'static>> })
        }
    };
    let t = g.add_node(NodeData::new(node, sentinel_bufs(n_out)));
    g.add_edge(s, t, ());
    let mut p = Processor::<G>::with_capacity(4);
    let active = lens.len().min(n_in).min(n_out);
    for call in 0..calls {
        if let Err(e) = catch(|| p.process(&mut g, t)) {
            return Some(("node.panic".into(), format!("{tag}: call {call} panicked: {e}")));
        }
        for ch in 0..n_out {
            for tt in 0..LEN {
                let got = g[t].buffers[ch][tt];
                let exp = if ch < active {
                    // position in the concatenated stream: initial ring contents, then the input
                    let pos = call * LEN + tt;
                    let l = lens[ch];
                    if pos < l {
                        raw(ch, (off + pos) % l)
                    } else {
                        let q = pos - l;
                        src_val(0, ch, q % LEN, q / LEN)
                    }
                } else {
                    continue; // channels without a ring buffer or an input: not specified by the property
                };
                if got != exp {
                    return Some(("node.Delay".into(), format!("{tag}: call {call} channel {ch} sample {tt} = {got}, expected {exp} (delay of exactly {} samples)", lens.get(ch).copied().unwrap_or(0))));
                }
            }
        }
    }
    None
}

/// Signal node: Box<dyn Signal<Frame=[f32;2]>> over an instrumented source.
fn signal_case(n_out: usize, wrapper: usize) -> Option<Bad> {
    signal_case_calls(n_out, wrapper, 3)
}

fn signal_case_calls(n_out: usize, wrapper: usize, calls: usize) -> Option<Bad> {
    let tag = format!("signal node with {n_out} output buffers wrapper {}", ["Box<dyn Signal>", "BoxedNode(Box<dyn Signal>)"][wrapper]);
    let (gen, c) = Gen::new(|n| [n as f32, -(n as f32) - 0.5]);
    let sig: Box<dyn Signal<Frame = [f32; 2]>> = Box::new(gen);
    let node: DynNode = if wrapper == 0 { Box::new(sig) } else { Box::new(BoxedNode::new(sig)) };
    let mut g: G = Graph::with_capacity(2, 1);
    let t = g.add_node(NodeData::new(node, sentinel_bufs(n_out)));
    let mut p = Processor::<G>::with_capacity(2);
    for call in 0..calls {
        if let Err(e) = catch(|| p.process(&mut g, t)) {
            return Some(("node.panic".into(), format!("{tag}: call {call} panicked: {e}")));
        }
        if c.pulls() != (call + 1) * LEN {
            return Some(("node.Signal".into(), format!("{tag}: after call {call} the signal had been pulled {} times, expected {}", c.pulls(), (call + 1) * LEN)));
        }
        for ch in 0..n_out {
            for tt in 0..LEN {
                let n = (call * LEN + tt) as f32;
                let exp = match ch {
                    0 => n,
                    1 => -n - 0.5,
                    _ => continue, // buffers beyond the frame's channels: not specified by the property
                };
                let got = g[t].buffers[ch][tt];
                if got != exp {
                    return Some(("node.Signal".into(), format!("{tag}: call {call} buffer {ch} sample {tt} = {got}, expected {exp}")));
                }
            }
        }
    }
    None
}

/// Buffer content classes ("arbitrary buffer contents"): value of sample `t` on call `c`.
const CLASSES: [&str; 11] = ["zeros", "tiny (below f32::EPSILON)", "subnormal", "tiny with one ordinary sample", "ordinary", "ordinary negative", "huge", "negative zeros", "tiny negative", "infinities", "NaN payloads"];
fn class_val(class: u8, t: usize, c: usize) -> f32 {
    let k = (t + 1 + 3 * c) as f32;
    match class {
        0 => 0.0,
        1 => k * 2f32.powi(-40),
        2 => f32::from_bits((t + 1 + c) as u32),
        3 => {
            if t == 17 {
                0.5
            } else {
                k * 2f32.powi(-40)
            }
        }
        4 => k / 64.0,
        5 => -k / 32.0,
        6 => k * 2f32.powi(100),
        7 => -0.0,
        8 => -k * 2f32.powi(-41),
        9 => {
            if t % 2 == 0 {
                f32::INFINITY
            } else {
                f32::NEG_INFINITY
            }
        }
        _ => f32::from_bits(0x7fc0_0000 | (t as u32 + 1)),
    }
}
struct Raw(Vec<u8>, usize);
impl Node for Raw {
    fn process(&mut self, _inputs: &[Input], output: &mut [Buffer]) {
        for (b, o) in output.iter_mut().enumerate() {
            for t in 0..LEN {
                o[t] = class_val(self.0[b], t, self.1);
            }
        }
        self.1 += 1;
    }
}

/// every value a sequential f32 summation of `terms` (in some order, starting from silence) can give
fn sums_any_order(terms: &[f32]) -> Vec<f32> {
    fn rec(rest: &mut Vec<f32>, acc: f32, out: &mut Vec<f32>) {
        if rest.is_empty() {
            if !out.iter().any(|o| o.to_bits() == acc.to_bits()) {
                out.push(acc);
            }
            return;
        }
        for i in 0..rest.len() {
            let x = rest.remove(i);
            rec(rest, acc + x, out);
            rest.insert(i, x);
        }
    }
    let mut out = Vec::new();
    rec(&mut terms.to_vec(), 0.0, &mut out);
    out
}

/// One node fed buffers of the given content classes (`classes[input][buffer]`), two calls.
/// Sum / SumBuffers: the output must be a sum of ALL terms (any order of f32 additions accepted,
/// the sign of a zero result left open); Pass / Delay: bit-for-bit copies.
fn content_case(kind: &str, wrapper: usize, classes: &[Vec<u8>], ring: usize) -> Option<Bad> {
    let tag = format!("{kind} ({}) fed buffers of classes {:?}", ["plain", "BoxedNode", "fn pointer / Box<dyn FnMut>"][wrapper], classes.iter().map(|c| c.iter().map(|&x| CLASSES[x as usize]).collect::<Vec<_>>()).collect::<Vec<_>>());
    let n_out = classes.iter().map(|c| c.len()).max().unwrap_or(1).max(1);
    let mut g: G = Graph::with_capacity(8, 8);
    let srcs: Vec<NodeIndex> = classes.iter().map(|c| g.add_node(NodeData::new(Box::new(Raw(c.clone(), 0)) as DynNode, sentinel_bufs(c.len())))).collect();
    let ring0 = |ch: usize| -> Vec<f32> { (0..ring).map(|i| class_val(((ch + i) % 11) as u8, i % LEN, 5)).collect() };
    let node: DynNode = match (kind, wrapper) {
        ("Sum", 0) => Box::new(Sum),
        ("Sum", 1) => Box::new(BoxedNode::new(Sum)),
        ("Sum", _) => Box::new((|i: &[Input], o: &mut [Buffer]| Sum.process(i, o)) as fn(&[Input], &mut [Buffer])),
        ("SumBuffers", 0) => Box::new(SumBuffers),
        ("SumBuffers", 1) => Box::new(BoxedNode::new(SumBuffers)),
        ("SumBuffers", _) => Box::new((|i: &[Input], o: &mut [Buffer]| SumBuffers.process(i, o)) as fn(&[Input], &mut [Buffer])),
        ("Pass", 0) => Box::new(Pass),
        ("Pass", 1) => Box::new(BoxedNode::new(Pass)),
        ("Pass", _) => Box::new((|i: &[Input], o: &mut [Buffer]| Pass.process(i, o)) as fn(&[Input], &mut [Buffer])),
        (_, w) => {
            let d = Delay((0..n_out).map(|ch| Fixed::from(ring0(ch))).collect::<Vec<_>>());
            match w {
                0 => Box::new(d),
                1 => Box::new(BoxedNode::new(d)),
                _ => {
                    let mut d = d;
                    let f: Box<dyn FnMut(&[Input], &mut [Buffer])> = Box::new(move |i, o| d.process(i, o));
                    Box::new(f)
                }
            }
        }
    };
    let t = g.add_node(NodeData::new(node, sentinel_bufs(n_out)));
    for &s in srcs.iter().rev() {
        g.add_edge(s, t, ());
    }
    let mut p = Processor::<G>::with_capacity(8);
    for call in 0..2 {
        if let Err(e) = catch(|| p.process(&mut g, t)) {
            return Some(("node.panic".into(), format!("{tag}: call {call} panicked: {e}")));
        }
        for ch in 0..n_out {
            for tt in 0..LEN {
                let got = g[t].buffers[ch][tt];
                match kind {
                    "Sum" | "SumBuffers" => {
                        let terms: Vec<f32> = if kind == "Sum" {
                            classes.iter().filter_map(|c| c.get(ch)).map(|&c| class_val(c, tt, call)).collect()
                        } else {
                            classes.iter().flat_map(|c| c.iter()).map(|&c| class_val(c, tt, call)).collect()
                        };
                        let mut ok = sums_any_order(&terms);
                        // a sum accumulated in higher precision and rounded once is a sum too; anything
                        // between the smallest and the largest candidate is accepted
                        ok.push(terms.iter().map(|&x| x as f64).sum::<f64>() as f32);
                        let (lo, hi) = ok.iter().fold((f32::INFINITY, f32::NEG_INFINITY), |(l, h), &o| (l.min(o), h.max(o)));
                        if !(got >= lo && got <= hi) && !ok.iter().any(|&o| o == got || (o.is_nan() && got.is_nan())) {
                            return Some(("node.contents".into(), format!("{tag}: call {call}: output buffer {ch} sample {tt} = {got:e}, which no order of adding the input samples {terms:?} gives (candidates {ok:?})")));
                        }
                    }
                    "Pass" => {
                        let exp = match classes[0].get(ch) {
                            Some(&c) => class_val(c, tt, call),
                            None => continue,
                        };
                        if got.to_bits() != exp.to_bits() {
                            return Some(("node.contents".into(), format!("{tag}: call {call}: output buffer {ch} sample {tt} = {got:e} (bits {:#x}), expected the input sample {exp:e} (bits {:#x}) unchanged", got.to_bits(), exp.to_bits())));
                        }
                    }
                    _ => {
                        let pos = call * LEN + tt;
                        let exp = match classes[0].get(ch) {
                            Some(&c) => {
                                if pos < ring {
                                    ring0(ch)[pos]
                                } else {
                                    class_val(c, (pos - ring) % LEN, (pos - ring) / LEN)
                                }
                            }
                            None => continue,
                        };
                        if got.to_bits() != exp.to_bits() {
                            return Some(("node.contents".into(), format!("{tag} ring of {ring} samples: call {call}: output buffer {ch} sample {tt} = {got:e} (bits {:#x}), expected {exp:e} (bits {:#x}): the sample from exactly {ring} samples earlier, unchanged", got.to_bits(), exp.to_bits())));
                        }
                    }
                }
            }
        }
    }
    None
}

fn replay(v: &Value) -> Option<String> {
    let us = |k: &str| v[k].as_u64().unwrap_or(0) as usize;
    let list = |k: &str| -> Vec<usize> { v[k].as_array().map(|a| a.iter().map(|x| x.as_u64().unwrap_or(0) as usize).collect()).unwrap_or_default() };
    match v["sys"].as_str().unwrap_or("") {
        "stateless" => {
            let kind = match v["kind"].as_str().unwrap_or("") {
                "Sum" => Kind::Sum,
                "SumBuffers" => Kind::SumBuffers,
                _ => Kind::Pass,
            };
            stateless_case(kind, us("wrapper"), &list("in_bufs"), us("n_out")).map(|e| format!("{}: {}", e.0, e.1))
        }
        "delay" => delay_case_off(&list("lens"), us("n_in"), us("n_out"), us("wrapper"), if us("calls") == 0 { 4 } else { us("calls") }, us("off"), us("how")).map(|e| format!("{}: {}", e.0, e.1)),
        "signal" => signal_case(us("n_out"), us("wrapper")).map(|e| format!("{}: {}", e.0, e.1)),
        "delay_soak" => delay_case_calls(&list("lens"), 2, 2, 0, if us("calls") == 0 { 300 } else { us("calls") }).map(|e| format!("{}: {}", e.0, e.1)),
        "contents" => {
            let classes: Vec<Vec<u8>> = v["classes"].as_array().map(|a| a.iter().map(|b| b.as_array().map(|x| x.iter().map(|y| y.as_u64().unwrap_or(0) as u8).collect()).unwrap_or_default()).collect()).unwrap_or_default();
            content_case(v["kind"].as_str().unwrap_or(""), us("wrapper"), &classes, us("ring")).map(|e| format!("{}: {}", e.0, e.1))
        }
        "signal_soak" => signal_case_calls(2, 0, 300).map(|e| format!("{}: {}", e.0, e.1)),
        _ => Some("unknown case".into()),
    }
}

fn main() {
    let ctx = Ctx::new("C16", "release");
    if let Some(v) = ctx.replay_case() {
        let _guard_scope = guard::scoped(&v.to_string());
        ctx.finish_replay(catch(|| replay(&v)).unwrap_or_else(|p| Some(format!("panic: {p}"))));
    }
    ctx.rule("Sum / SumBuffers: input count 0..=3 x buffers per input 0..=3 (every combination) x output buffers 0..=3 x 11 wrapper types (plain, BoxedNode, BoxedNodeSend, Box<Box<T>>, &mut T, fn pointer, Box<dyn Fn>, Box<dyn FnMut>, nested GraphNode, nested GraphNode whose inner input/output nodes have different buffer counts, nested GraphNode with one more declared input port than connected inputs) x 3 consecutive calls, the wrapped node counting its invocations (exactly one per call, also with zero output buffers); Pass: 0 or 1 input likewise; Delay: per-channel ring lengths over {1,2,63,64,65,130}^(1..=2 channels) x input buffers 0..=3 x output buffers 0..=3 x 4 wrappers x 4 calls with coded initial ring contents; the same for rings with an earlier life (10 ring-length sets incl. multiples of 64 x first index moved to {1,5,37,63,64,100,191} mod len by set_first, by earlier pushes or by from_raw_parts, 6 calls); signal node: Box<dyn Signal<Frame=[f32;2]>> over an instrumented source, output buffers 0..=3, 3 calls, 64 pulls per call; sources write position-coded dyadic values (sums exact in f32), outputs start as a sentinel; oracle = per-node reference function; scale probes: Sum / SumBuffers with 4..=8, 16, 33, 100, 255, 256 and 257 inputs (patterned buffer counts), plain and nested-graph wrappers; buffer contents: every assignment of 9 finite content classes (zeros, values below f32::EPSILON, subnormals, tiny with one ordinary sample, ordinary, negative, 2^100-sized, negative zeros, tiny negative) to the buffers of 1..=3 Sum inputs and 1..=3 SumBuffers buffers (oracle: the output lies between the smallest and largest value that SOME order of f32 additions of ALL the terms, or a wider accumulation rounded once, gives), and of 11 classes (also infinities and NaN payloads) to Pass and Delay (rings 1, 17, 64, 65) inputs, compared bit for bit, x 3 wrappers x 2 calls; soak probes: 300 consecutive calls of delay nodes (4 ring-length sets) and of the signal node, 2100 calls of delay nodes with rings of 65535 and 65536 / 65537 samples (the write position wraps twice); distinct by configuration");
    let mut evals = 0u64;
    for kind in [Kind::Sum, Kind::SumBuffers, Kind::Pass] {
        for n_in in 0..=(if kind == Kind::Pass { 1 } else { 3 }) {
            for code in 0..4usize.pow(n_in as u32) {
                let in_bufs: Vec<usize> = (0..n_in).map(|j| (code / 4usize.pow(j as u32)) % 4).collect();
                for n_out in 0..=3usize {
                    for w in 0..WRAPPERS.len() {
                        let case = json!({"sys":"stateless","kind":format!("{kind:?}"),"wrapper":w,"in_bufs":in_bufs,"n_out":n_out});
                        let _guard_scope = guard::scoped(&case.to_string());
                        evals += 1;
                        match catch(|| stateless_case(kind, w, &in_bufs, n_out)) {
                            Ok(None) => ctx.observe(common::fnv_str(&case.to_string())),
                            Ok(Some((k, m))) => ctx.violation(&k, case, m, Some(&|| stateless_case(kind, w, &in_bufs, n_out).map(|e| e.1))),
                            Err(p) => ctx.violation("node.panic", case, format!("panic: {p}"), None),
                        }
                    }
                }
            }
        }
    }
    // scale probes: many inputs (4..=8, then 16, 33, 100, 255, 256, 257) with patterned buffer counts
    for kind in [Kind::Sum, Kind::SumBuffers] {
        for n_in in (4..=8usize).chain([16, 33, 100, 255, 256, 257]) {
            for pat in 0..4usize {
                let in_bufs: Vec<usize> = (0..n_in).map(|j| [2, (j + pat) % 4, (j * 2 + pat) % 3, 3][pat]).collect();
                for n_out in [1usize, 3] {
                    for w in [0usize, 8] {
                        let case = json!({"sys":"stateless","kind":format!("{kind:?}"),"wrapper":w,"in_bufs":in_bufs,"n_out":n_out});
                        let _guard_scope = guard::scoped(&case.to_string());
                        evals += 1;
                        match catch(|| stateless_case(kind, w, &in_bufs, n_out)) {
                            Ok(None) => ctx.observe(common::fnv_str(&case.to_string())),
                            Ok(Some((k, m))) => ctx.violation(&k, case, m, Some(&|| stateless_case(kind, w, &in_bufs, n_out).map(|e| e.1))),
                            Err(p) => ctx.violation("node.panic", case, format!("panic: {p}"), None),
                        }
                    }
                }
            }
        }
    }
    let ls = [1usize, 2, 63, 64, 65, 130];
    let mut lens_sets: Vec<Vec<usize>> = ls.iter().map(|&l| vec![l]).collect();
    for &a in &ls {
        for &b in &ls {
            lens_sets.push(vec![a, b]);
        }
    }
    lens_sets.push(vec![]);
    for lens in &lens_sets {
        for n_in in 0..=3usize {
            for n_out in 0..=3usize {
                for w in 0..4usize {
                    let case = json!({"sys":"delay","lens":lens,"n_in":n_in,"n_out":n_out,"wrapper":w});
                    let _guard_scope = guard::scoped(&case.to_string());
                    evals += 1;
                    match catch(|| delay_case(lens, n_in, n_out, w)) {
                        Ok(None) => ctx.observe(common::fnv_str(&case.to_string())),
                        Ok(Some((k, m))) => ctx.violation(&k, case, m, Some(&|| delay_case(lens, n_in, n_out, w).map(|e| e.1))),
                        Err(p) => ctx.violation("node.panic", case, format!("panic: {p}"), None),
                    }
                }
            }
        }
    }
    // rings with an earlier life: first index moved by set_first / earlier pushes / from_raw_parts
    for lens in [vec![1usize], vec![2], vec![63], vec![64], vec![65], vec![128], vec![130], vec![192, 64], vec![64, 130], vec![256, 320]] {
        for off in [1usize, 5, 37, 63, 64, 100, 191] {
            for how in 0..3usize {
                for w in [0usize, 3] {
                    let case = json!({"sys":"delay","lens":lens,"n_in":2,"n_out":2,"wrapper":w,"off":off,"how":how,"calls":6});
                    let _guard_scope = guard::scoped(&case.to_string());
                    evals += 1;
                    match catch(|| delay_case_off(&lens, 2, 2, w, 6, off, how)) {
                        Ok(None) => ctx.observe(common::fnv_str(&case.to_string())),
                        Ok(Some((k, m))) => ctx.violation(&k, case, m, Some(&|| delay_case_off(&lens, 2, 2, w, 6, off, how).map(|e| e.1))),
                        Err(p) => ctx.violation("node.panic", case, format!("panic: {p}"), None),
                    }
                }
            }
        }
    }
    for n_out in 0..=3usize {
        for w in 0..2usize {
            let case = json!({"sys":"signal","n_out":n_out,"wrapper":w});
            let _guard_scope = guard::scoped(&case.to_string());
            evals += 1;
            match catch(|| signal_case(n_out, w)) {
                Ok(None) => ctx.observe(common::fnv_str(&case.to_string())),
                Ok(Some((k, m))) => ctx.violation(&k, case, m, Some(&|| signal_case(n_out, w).map(|e| e.1))),
                Err(p) => ctx.violation("node.panic", case, format!("panic: {p}"), None),
            }
        }
    }
    // buffer contents: every assignment of content classes to the inputs' buffers
    {
        let mut cases: Vec<(&str, usize, Vec<Vec<u8>>, usize)> = Vec::new();
        // Sum: 1..=3 inputs of one buffer (classes 0..=8, finite), then two buffers per input
        for n_in in 1..=3u32 {
            for code in 0..9usize.pow(n_in) {
                let cl: Vec<Vec<u8>> = (0..n_in).map(|j| vec![((code / 9usize.pow(j)) % 9) as u8]).collect();
                for w in 0..3usize {
                    if w == 0 || n_in < 3 {
                        cases.push(("Sum", w, cl.clone(), 0));
                    }
                }
                if n_in == 2 {
                    let cl2: Vec<Vec<u8>> = cl.iter().enumerate().map(|(j, c)| vec![c[0], ((c[0] as usize + 3 + j) % 9) as u8]).collect();
                    cases.push(("Sum", 0, cl2.clone(), 0));
                    cases.push(("SumBuffers", 0, cl2, 0));
                }
            }
        }
        // SumBuffers: one input of 1..=3 buffers, and two inputs of 2 + 1 buffers
        for nb in 1..=3u32 {
            for code in 0..9usize.pow(nb) {
                let bufs: Vec<u8> = (0..nb).map(|j| ((code / 9usize.pow(j)) % 9) as u8).collect();
                for w in 0..3usize {
                    if w == 0 || nb < 3 {
                        cases.push(("SumBuffers", w, vec![bufs.clone()], 0));
                    }
                }
                if nb == 3 {
                    cases.push(("SumBuffers", 0, vec![bufs[..2].to_vec(), bufs[2..].to_vec()], 0));
                }
            }
        }
        // Pass / Delay: bit-for-bit, every class incl. infinities and NaN payloads, 1..=2 buffers
        for a in 0..11u8 {
            for b in 0..12u8 {
                let bufs: Vec<u8> = if b == 11 { vec![a] } else { vec![a, b] };
                for w in 0..3usize {
                    cases.push(("Pass", w, vec![bufs.clone()], 0));
                    for ring in [1usize, 17, 64, 65] {
                        cases.push(("Delay", w, vec![bufs.clone()], ring));
                    }
                }
            }
        }
        ctx.set("content_class_cases", json!(cases.len()));
        for (kind, w, cl, ring) in &cases {
            let case = json!({"sys":"contents","kind":kind,"wrapper":w,"classes":cl,"ring":ring});
            let _guard_scope = guard::scoped(&case.to_string());
            evals += 1;
            match catch(|| content_case(kind, *w, cl, *ring)) {
                Ok(None) => ctx.observe(common::fnv_str(&case.to_string())),
                Ok(Some((k, m))) => ctx.violation(&k, case, m, Some(&|| content_case(kind, *w, cl, *ring).map(|e| e.1))),
                Err(p) => ctx.violation("node.panic", case, format!("panic: {p}"), None),
            }
        }
    }
    // soak probes: many consecutive process calls
    for lens in [vec![1usize], vec![63, 130], vec![64, 65], vec![7, 200]] {
        let case = json!({"sys":"delay_soak","lens":lens});
        let _guard_scope = guard::scoped(&case.to_string());
        evals += 1;
        if let Some((k, m)) = delay_case_calls(&lens, 2, 2, 0, 300) {
            ctx.violation(&k, case, format!("300 consecutive calls: {m}"), None);
        }
    }
    // 16-bit boundary: rings of 2^16 +- 1 samples, enough calls for the write position to wrap twice
    for lens in [vec![1024usize, 4096], vec![44100, 48000], vec![65535], vec![65536, 65537]] {
        let case = json!({"sys":"delay_soak","lens":lens,"calls":2100});
        let _guard_scope = guard::scoped(&case.to_string());
        evals += 1;
        match catch(|| delay_case_calls(&lens, 2, 2, 0, 2100)) {
            Ok(None) => {}
            Ok(Some((k, m))) => ctx.violation(&k, case, format!("2100 consecutive calls: {m}"), None),
            Err(p) => ctx.violation("node.panic", case, format!("delay rings {lens:?}, 2100 consecutive calls: panicked: {p}"), None),
        }
    }
    if let Some((k, m)) = signal_case_calls(2, 0, 300) {
        ctx.violation(&k, json!({"sys":"signal_soak"}), format!("300 consecutive calls: {m}"), None);
    }
    evals += 1;
    ctx.add_evals(evals);
    ctx.set("exhaustive", json!(true));
    ctx.set("exhaustive_scope", json!("input counts <=3, buffers per node <=3, the listed ring lengths and wrappers; Pass with more than one input is not checked (the property speaks of a single input)"));
    ctx.sample(json!({"sys":"stateless","kind":"Sum","wrapper":8,"in_bufs":[2,0,3],"n_out":3}));
    ctx.sample(json!({"sys":"delay","lens":[63,130],"n_in":3,"n_out":1,"wrapper":0}));
    ctx.finish();
}
