//! Shared pieces of the dasp explorers that depend on the dasp crates.

pub use scalar::{domain, fmts};
pub use scalar::{for_int_fmts, for_int_pairs};
pub mod probe;
pub mod progs;
pub mod progs_main;
