//! C01 — integer <-> integer sample conversions against floor(amp * 2^(tb-sb)).
//! Built twice: `release`, and `dbg` (overflow checks + debug assertions on),
//! where a panic on an in-range input is a violation too.

use scalar::domain::{int_source_domain, Domain};
use scalar::fmts::IntS;
use scalar::{for_int_fmts, for_int_pairs};
use common::refmodel::{conv_int, Fmt, INT_FMTS};
use common::{catch, guard, json, Ctx, Value};
use dasp_sample::{Sample, ToSample, I24, I48, U24, U48};
use rayon::prelude::*;
use std::collections::HashMap;
use std::sync::atomic::{AtomicU64, Ordering::Relaxed};

const DEBUG: bool = cfg!(debug_assertions);

type ConvFn = fn(i128) -> i128;

/// (src, dst, entry) -> the real conversion, on mathematical values
fn table() -> HashMap<(Fmt, Fmt, &'static str), ConvFn> {
    let mut t: HashMap<(Fmt, Fmt, &'static str), ConvFn> = HashMap::new();
    macro_rules! add {
        ($m:ident, $S:ty, $f:ident, $T:ty) => {
            t.insert((<$S as IntS>::FMT, <$T as IntS>::FMT, "direct"), |v| dasp_sample::conv::$m::$f(<$S as IntS>::from_i128(v)).to_i128());
            t.insert((<$S as IntS>::FMT, <$T as IntS>::FMT, "to_sample"), |v| <$S as IntS>::from_i128(v).to_sample::<$T>().to_i128());
            t.insert((<$S as IntS>::FMT, <$T as IntS>::FMT, "from_sample"), |v| <$T as Sample>::from_sample(<$S as IntS>::from_i128(v)).to_i128());
        };
    }
    for_int_pairs!(add);
    t
}

struct Totals {
    evals: AtomicU64,
    distinct_outputs: AtomicU64,
    widening_roundtrips: AtomicU64,
}

fn case_json(s: Fmt, t: Fmt, entry: &str, v: i128) -> Value {
    json!({"src": s.name(), "dst": t.name(), "entry": entry, "v": v.to_string(), "profile": if DEBUG {"dbg"} else {"release"}})
}

fn single(tbl: &HashMap<(Fmt, Fmt, &'static str), ConvFn>, s: Fmt, t: Fmt, entry: &str, v: i128) -> Option<String> {
    if entry == "roundtrip" || entry == "order" {
        // the sweep's direct assertions; re-evaluated on the pair of conversions involved
        let f = *tbl.get(&(s, t, "direct"))?;
        let b = *tbl.get(&(t, s, "to_sample"))?;
        return match catch(|| (f(v), b(f(v)), f(v - 1))) {
            Ok((_, back, _)) if entry == "roundtrip" && back != v => Some(format!("{} -> {} -> {}: widening then narrowing back turned {v} into {back}", s.name(), t.name(), s.name())),
            Ok((g, _, p)) if entry == "order" && v > s.min() && g < p => Some(format!("{} -> {}: order not preserved at {v}: {g} < {p} (output for {})", s.name(), t.name(), v - 1)),
            Ok(_) => None,
            Err(p) => Some(format!("panic: {p}")),
        };
    }
    let e = ["direct", "to_sample", "from_sample"].into_iter().find(|x| *x == entry).unwrap_or("direct");
    let f = *tbl.get(&(s, t, e))?;
    let exp = conv_int(s, t, v);
    match catch(|| f(v)) {
        Ok(g) if g == exp => None,
        Ok(g) => Some(format!("{} -> {} ({entry}): {v} converted to {g}, exact amplitude rescale floor(amp * 2^({} - {})) gives {exp}", s.name(), t.name(), t.bits(), s.bits())),
        Err(p) => Some(format!("{} -> {} ({entry}): {v} panicked ({p}); expected {exp}", s.name(), t.name())),
    }
}

/// Sweep one pair through one entry point over a domain.
fn sweep<S: IntS + ToSample<T>, T: IntS + ToSample<S>>(ctx: &Ctx, tbl: &HashMap<(Fmt, Fmt, &'static str), ConvFn>, tot: &Totals, dom: &Domain, entry: &'static str, f: impl Fn(S) -> T + Sync + Copy) {
    let (sf, tf) = (S::FMT, T::FMT);
    let min = sf.min();
    let widening = tf.bits() >= sf.bits();
    dom.pieces.par_iter().for_each(|piece| {
        let _guard_scope = guard::scoped(&json!({"src": sf.name(), "dst": tf.name(), "entry": entry, "piece": piece.describe()}).to_string());
        let mut n = 0u64;
        let mut changes = 0u64;
        let mut prev: Option<i128> = None;
        let mut first_bad: Option<(i128, String, &'static str)> = None;
        let body = |u: u64, n: &mut u64, changes: &mut u64, prev: &mut Option<i128>, first_bad: &mut Option<(i128, String, &'static str)>| {
            let v = min + u as i128;
            let s = S::from_i128(v);
            let out = f(s);
            let g = out.to_i128();
            *n += 1;
            let exp = conv_int(sf, tf, v);
            if g != exp {
                if first_bad.is_none() {
                    *first_bad = Some((v, format!("{} -> {} ({entry}): {v} converted to {g}, exact amplitude rescale gives {exp}", sf.name(), tf.name()), entry));
                }
                return;
            }
            if let Some(p) = *prev {
                if g < p && first_bad.is_none() {
                    *first_bad = Some((v, format!("{} -> {} ({entry}): order not preserved at {v}: {g} < previous output {p}", sf.name(), tf.name()), "order"));
                }
                if g != p {
                    *changes += 1;
                }
            } else {
                *changes += 1;
            }
            *prev = Some(g);
            if widening {
                let b: S = out.to_sample::<S>();
                if b != s && first_bad.is_none() {
                    *first_bad = Some((v, format!("{} -> {} -> {}: widening then narrowing back turned {v} into {}", sf.name(), tf.name(), sf.name(), b.to_i128()), "roundtrip"));
                }
            }
        };
        let r = catch(|| piece.for_each(|u| body(u, &mut n, &mut changes, &mut prev, &mut first_bad)));
        if r.is_err() {
            // a panic inside a conversion (overflow check): find the first value that panics
            let mut found = None;
            piece.for_each(|u| {
                if found.is_none() {
                    let v = min + u as i128;
                    if let Err(p) = catch(|| f(S::from_i128(v))) {
                        found = Some((v, format!("{} -> {} ({entry}): {v} panicked: {p}", sf.name(), tf.name()), entry));
                    }
                }
            });
            first_bad = found.or(Some((min, format!("{} -> {} ({entry}): panic inside the sweep that did not reproduce value by value", sf.name(), tf.name()), entry)));
        }
        tot.evals.fetch_add(n, Relaxed);
        tot.distinct_outputs.fetch_add(changes, Relaxed);
        if widening {
            tot.widening_roundtrips.fetch_add(n, Relaxed);
        }
        if let Some((v, msg, kind)) = first_bad {
            // the explorer's message and the replay's message may differ in wording; only reproduction matters
            let recheck = || single(tbl, sf, tf, kind, v).map(|_| msg.clone());
            ctx.violation(&format!("conv.{}->{}", sf.name(), tf.name()), case_json(sf, tf, kind, v), msg.clone(), Some(&recheck));
        }
        guard::leave();
    });
}

/// Same oracle, through the fn-pointer table (used for the to_sample /
/// from_sample entry points, which are one-line dispatches to the direct fn).
fn sweep_dyn(ctx: &Ctx, tbl: &HashMap<(Fmt, Fmt, &'static str), ConvFn>, tot: &Totals, dom: &Domain, sf: Fmt, tf: Fmt, entry: &'static str) {
    let f = tbl[&(sf, tf, entry)];
    let min = sf.min();
    dom.pieces.par_iter().for_each(|piece| {
        let _guard_scope = guard::scoped(&json!({"src": sf.name(), "dst": tf.name(), "entry": entry, "piece": piece.describe()}).to_string());
        let mut n = 0u64;
        let mut bad: Option<i128> = None;
        let r = catch(|| {
            piece.for_each(|u| {
                let v = min + u as i128;
                n += 1;
                if f(v) != conv_int(sf, tf, v) && bad.is_none() {
                    bad = Some(v);
                }
            })
        });
        if r.is_err() {
            piece.for_each(|u| {
                let v = min + u as i128;
                if bad.is_none() && catch(|| f(v)).is_err() {
                    bad = Some(v);
                }
            });
        }
        tot.evals.fetch_add(n, Relaxed);
        if let Some(v) = bad {
            let msg = single(tbl, sf, tf, entry, v).unwrap_or_else(|| "mismatch did not reproduce".into());
            ctx.violation(&format!("conv.{}->{}", sf.name(), tf.name()), case_json(sf, tf, entry, v), msg, Some(&|| single(tbl, sf, tf, entry, v)));
        }
        guard::leave();
    });
}

/// Via-intermediate law on the real conversions through the fn-pointer table.
fn via_law(ctx: &Ctx, tbl: &HashMap<(Fmt, Fmt, &'static str), ConvFn>, tot: &Totals) {
    let mut triples = Vec::new();
    for &s in &INT_FMTS {
        for &m in &INT_FMTS {
            for &t in &INT_FMTS {
                if s != m && m != t && s != t && m.bits() >= s.bits().min(t.bits()) {
                    triples.push((s, m, t));
                }
            }
        }
    }
    ctx.set("via_triples", json!(triples.len()));
    triples.par_iter().for_each(|&(s, m, t)| {
        let _guard_scope = guard::scoped(&json!({"via": [s.name(), m.name(), t.name()]}).to_string());
        let sm = tbl[&(s, m, "to_sample")];
        let mt = tbl[&(m, t, "to_sample")];
        let st = tbl[&(s, t, "to_sample")];
        let mut dom = if s.bits() <= 16 { Domain::complete(s.bits()) } else { Domain::new(s.bits()) };
        if s.bits() > 16 {
            dom.add_lattice(8, false);
            dom.add_boundaries(256, 16);
        }
        let mut n = 0u64;
        let mut bad: Option<(i128, String)> = None;
        for p in &dom.pieces {
            let r = catch(|| {
                p.for_each(|u| {
                    let v = s.min() + u as i128;
                    n += 1;
                    let a = mt(sm(v));
                    let b = st(v);
                    if a != b && bad.is_none() {
                        bad = Some((v, format!("{} -> {} -> {} gives {a} but {} -> {} directly gives {b} for input {v}", s.name(), m.name(), t.name(), s.name(), t.name())));
                    }
                })
            });
            if let Err(pn) = r {
                bad = bad.or(Some((s.min(), format!("panic in via-law sweep {}->{}->{}: {pn}", s.name(), m.name(), t.name()))));
            }
        }
        tot.evals.fetch_add(2 * n, Relaxed);
        if let Some((v, msg)) = bad {
            ctx.violation(&format!("via.{}->{}->{}", s.name(), m.name(), t.name()), json!({"via":[s.name(), m.name(), t.name()], "v": v.to_string()}), msg, None);
        }
        guard::leave();
    });
}

fn fmt_by_name(n: &str) -> Option<Fmt> {
    INT_FMTS.iter().copied().find(|f| f.name() == n)
}

fn main() {
    let ctx = Ctx::new("C01", if DEBUG { "dbg" } else { "release" });
    if (ctx.part == "dbg") != DEBUG {
        ctx.machinery_failure("part name does not match the build profile");
    }
    let tbl = table();
    if let Some(v) = ctx.replay_case() {
        let _guard_scope = guard::scoped(&v.to_string());
        if let Some(via) = v["via"].as_array() {
            let f: Vec<Fmt> = via.iter().filter_map(|x| fmt_by_name(x.as_str()?)).collect();
            let x: i128 = v["v"].as_str().and_then(|s| s.parse().ok()).unwrap_or(0);
            let r = catch(|| {
                let a = tbl[&(f[1], f[2], "to_sample")](tbl[&(f[0], f[1], "to_sample")](x));
                let b = tbl[&(f[0], f[2], "to_sample")](x);
                if a != b {
                    Some(format!("via {:?}: {a} != direct {b}", via))
                } else {
                    None
                }
            })
            .unwrap_or_else(|p| Some(format!("panic: {p}")));
            ctx.finish_replay(r);
        }
        let s = fmt_by_name(v["src"].as_str().unwrap_or(""));
        let t = fmt_by_name(v["dst"].as_str().unwrap_or(""));
        let x: i128 = v["v"].as_str().and_then(|s| s.parse().ok()).unwrap_or(0);
        match (s, t) {
            (Some(s), Some(t)) => ctx.finish_replay(single(&tbl, s, t, v["entry"].as_str().unwrap_or("direct"), x)),
            _ => ctx.machinery_failure("bad C01 replay case"),
        }
    }
    guard::set_hang_secs(900);
    // the dbg part always uses the quick domains (its purpose is the overflow checks)
    let thorough = ctx.thorough() && !DEBUG;
    let tot = Totals { evals: AtomicU64::new(0), distinct_outputs: AtomicU64::new(0), widening_roundtrips: AtomicU64::new(0) };
    let mut complete_pairs = 0;
    let mut lattice_pairs = 0;
    let mut doms: HashMap<u32, Domain> = HashMap::new();
    for b in [8u32, 16, 24, 32, 48, 64] {
        doms.insert(b, int_source_domain(b, thorough));
    }
    let mut small_doms: HashMap<u32, Domain> = HashMap::new();
    for b in [8u32, 16, 24, 32, 48, 64] {
        small_doms.insert(b, int_source_domain(b, false));
    }
    macro_rules! run {
        ($m:ident, $S:ty, $f:ident, $T:ty) => {{
            let (sf, tf) = (<$S as IntS>::FMT, <$T as IntS>::FMT);
            let d = &doms[&sf.bits()];
            if d.exhaustive {
                complete_pairs += 1;
            } else {
                lattice_pairs += 1;
            }
            sweep::<$S, $T>(&ctx, &tbl, &tot, d, "direct", |s| dasp_sample::conv::$m::$f(s));
            // the one-line dispatches: through the fn-pointer table, on the quick domains
            let small = if d.points() <= (1u128 << 27) { d } else { &small_doms[&sf.bits()] };
            sweep_dyn(&ctx, &tbl, &tot, small, sf, tf, "to_sample");
            sweep_dyn(&ctx, &tbl, &tot, small, sf, tf, "from_sample");
        }};
    }
    for_int_pairs!(run);
    // identity conversions (S -> S) through to_sample: must return the value itself
    macro_rules! ident {
        ($m:ident, $S:ty) => {{
            let d = int_source_domain(<$S as IntS>::FMT.bits(), false);
            for p in &d.pieces {
                p.for_each(|u| {
                    let v = <$S as IntS>::FMT.min() + u as i128;
                    let s = <$S as IntS>::from_i128(v);
                    if s.to_sample::<$S>() != s {
                        ctx.violation(&format!("conv.{0}->{0}", stringify!($S)), json!({"src": stringify!($S), "v": v.to_string()}), format!("identity conversion changed {v}"), None);
                    }
                });
                tot.evals.fetch_add(p.points() as u64, Relaxed);
            }
        }};
    }
    for_int_fmts!(ident);
    via_law(&ctx, &tbl, &tot);

    ctx.add_evals(tot.evals.load(Relaxed));
    ctx.add_distinct_counted(tot.distinct_outputs.load(Relaxed));
    ctx.set("pairs_complete_domain", json!(complete_pairs));
    ctx.set("pairs_lattice_domain", json!(lattice_pairs));
    ctx.set("widening_roundtrips_checked", json!(tot.widening_roundtrips.load(Relaxed)));
    for b in [8u32, 16, 24, 32, 48, 64] {
        ctx.set(&format!("domain_{b}bit"), json!(format!("{} ({} points)", doms[&b].desc, doms[&b].points())));
    }
    ctx.set("exhaustive", json!(lattice_pairs == 0));
    ctx.set("exhaustive_scope", json!(format!("{complete_pairs} ordered pairs over the complete source domain, {lattice_pairs} over the documented lattice (48/64-bit sources; 32-bit sources in the quick tier and in the dbg profile)")));
    ctx.rule(&format!("profile {}: for each of the 132 ordered pairs, every value of the source domain (complete for <=24-bit sources, and for 32-bit sources in the thorough release run; lattices otherwise) through conv::<src>::to_<dst>, Sample::to_sample and Sample::from_sample; oracle floor(amp * 2^(tb-sb)) in i128; also asserted directly: non-decreasing outputs, widening then narrowing returns the input, via-intermediate law over every admissible triple; distinct_nontrivial = number of distinct outputs counted per swept piece (summed over pairs and entry points)", if DEBUG { "dbg (overflow-checks, debug-assertions): a panic is a violation" } else { "release" }));
    ctx.sample(case_json(Fmt::I16, Fmt::U8, "direct", -1));
    ctx.sample(case_json(Fmt::U64, Fmt::I24, "to_sample", (1i128 << 63) - 1));
    ctx.sample(json!({"via": ["u8", "I48", "i16"], "v": "200"}));
    ctx.assume("48/64-bit (and, outside the thorough release run, 32-bit) source domains are covered on a lattice: every top-bit pattern the reference says can matter, under several settings of the bits that must not matter");
    ctx.finish();
}
