//! The 14 sample formats as a trait the sweeps can be generic over.

use common::refmodel::Fmt;
use dasp_sample::{Sample, I24, I48, U24, U48};

/// An integer sample format: conversion to/from the mathematical value.
pub trait IntS: Sample + Copy + Send + Sync + PartialEq + std::fmt::Debug + 'static {
    const FMT: Fmt;
    /// build the sample holding the in-range value `v` (unchecked for I24..U48)
    fn from_i128(v: i128) -> Self;
    fn to_i128(self) -> i128;
}

macro_rules! prim {
    ($T:ty, $F:ident) => {
        impl IntS for $T {
            const FMT: Fmt = Fmt::$F;
            #[inline(always)]
            fn from_i128(v: i128) -> Self {
                v as $T
            }
            #[inline(always)]
            fn to_i128(self) -> i128 {
                self as i128
            }
        }
    };
}
macro_rules! cust {
    ($T:ty, $R:ty, $F:ident) => {
        impl IntS for $T {
            const FMT: Fmt = Fmt::$F;
            #[inline(always)]
            fn from_i128(v: i128) -> Self {
                <$T>::new_unchecked(v as $R)
            }
            #[inline(always)]
            fn to_i128(self) -> i128 {
                self.inner() as i128
            }
        }
    };
}
prim!(i8, I8);
prim!(i16, I16);
prim!(i32, I32);
prim!(i64, I64);
prim!(u8, U8);
prim!(u16, U16);
prim!(u32, U32);
prim!(u64, U64);
cust!(I24, i32, I24);
cust!(U24, i32, U24);
cust!(I48, i64, I48);
cust!(U48, i64, U48);

/// Invoke `$mac!(module, SrcType, fn_name, DstType)` for each of the 132
/// ordered pairs of distinct integer formats (`dasp_sample::conv::<module>::<fn_name>`).
#[macro_export]
macro_rules! for_int_pairs {
    ($mac:ident) => {
        $crate::for_int_pairs!(@s $mac; i8, i8; (to_i16,i16) (to_i24,I24) (to_i32,i32) (to_i48,I48) (to_i64,i64) (to_u8,u8) (to_u16,u16) (to_u24,U24) (to_u32,u32) (to_u48,U48) (to_u64,u64));
        $crate::for_int_pairs!(@s $mac; i16, i16; (to_i8,i8) (to_i24,I24) (to_i32,i32) (to_i48,I48) (to_i64,i64) (to_u8,u8) (to_u16,u16) (to_u24,U24) (to_u32,u32) (to_u48,U48) (to_u64,u64));
        $crate::for_int_pairs!(@s $mac; i24, I24; (to_i8,i8) (to_i16,i16) (to_i32,i32) (to_i48,I48) (to_i64,i64) (to_u8,u8) (to_u16,u16) (to_u24,U24) (to_u32,u32) (to_u48,U48) (to_u64,u64));
        $crate::for_int_pairs!(@s $mac; i32, i32; (to_i8,i8) (to_i16,i16) (to_i24,I24) (to_i48,I48) (to_i64,i64) (to_u8,u8) (to_u16,u16) (to_u24,U24) (to_u32,u32) (to_u48,U48) (to_u64,u64));
        $crate::for_int_pairs!(@s $mac; i48, I48; (to_i8,i8) (to_i16,i16) (to_i24,I24) (to_i32,i32) (to_i64,i64) (to_u8,u8) (to_u16,u16) (to_u24,U24) (to_u32,u32) (to_u48,U48) (to_u64,u64));
        $crate::for_int_pairs!(@s $mac; i64, i64; (to_i8,i8) (to_i16,i16) (to_i24,I24) (to_i32,i32) (to_i48,I48) (to_u8,u8) (to_u16,u16) (to_u24,U24) (to_u32,u32) (to_u48,U48) (to_u64,u64));
        $crate::for_int_pairs!(@s $mac; u8, u8; (to_i8,i8) (to_i16,i16) (to_i24,I24) (to_i32,i32) (to_i48,I48) (to_i64,i64) (to_u16,u16) (to_u24,U24) (to_u32,u32) (to_u48,U48) (to_u64,u64));
        $crate::for_int_pairs!(@s $mac; u16, u16; (to_i8,i8) (to_i16,i16) (to_i24,I24) (to_i32,i32) (to_i48,I48) (to_i64,i64) (to_u8,u8) (to_u24,U24) (to_u32,u32) (to_u48,U48) (to_u64,u64));
        $crate::for_int_pairs!(@s $mac; u24, U24; (to_i8,i8) (to_i16,i16) (to_i24,I24) (to_i32,i32) (to_i48,I48) (to_i64,i64) (to_u8,u8) (to_u16,u16) (to_u32,u32) (to_u48,U48) (to_u64,u64));
        $crate::for_int_pairs!(@s $mac; u32, u32; (to_i8,i8) (to_i16,i16) (to_i24,I24) (to_i32,i32) (to_i48,I48) (to_i64,i64) (to_u8,u8) (to_u16,u16) (to_u24,U24) (to_u48,U48) (to_u64,u64));
        $crate::for_int_pairs!(@s $mac; u48, U48; (to_i8,i8) (to_i16,i16) (to_i24,I24) (to_i32,i32) (to_i48,I48) (to_i64,i64) (to_u8,u8) (to_u16,u16) (to_u24,U24) (to_u32,u32) (to_u64,u64));
        $crate::for_int_pairs!(@s $mac; u64, u64; (to_i8,i8) (to_i16,i16) (to_i24,I24) (to_i32,i32) (to_i48,I48) (to_i64,i64) (to_u8,u8) (to_u16,u16) (to_u24,U24) (to_u32,u32) (to_u48,U48));
    };
    (@s $mac:ident; $m:ident, $S:ty; $(($f:ident,$T:ty))*) => { $( $mac!($m, $S, $f, $T); )* };
}

/// Invoke `$mac!(module, SrcType)` for each of the 12 integer formats.
#[macro_export]
macro_rules! for_int_fmts {
    ($mac:ident) => {
        $mac!(i8, i8);
        $mac!(i16, i16);
        $mac!(i24, I24);
        $mac!(i32, i32);
        $mac!(i48, I48);
        $mac!(i64, i64);
        $mac!(u8, u8);
        $mac!(u16, u16);
        $mac!(u24, U24);
        $mac!(u32, u32);
        $mac!(u48, U48);
        $mac!(u64, u64);
    };
}
