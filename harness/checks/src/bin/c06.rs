//! C06 — Bounded and Fixed ring buffers against VecDeque reference models.
//!
//! Merged exploration (stateright BFS to fixpoint): every valid raw state
//! `(start,len)` / `first` of every capacity is an initial state; every action
//! of the alphabet is applied to the REAL buffer rebuilt from the raw parts
//! (`from_raw_parts`) over position-labelled storage with canaries, the
//! observation is compared with the reference queue, and the successor state
//! is re-extracted with `into_raw_parts`.
//! Unmerged exploration (DFS): every operation history to a bounded depth from
//! every initial state, the real object carried along (cloned per branch),
//! nothing relabelled, nothing merged.

use common::{catch, guard, json, Ctx, Value};
use dasp_ring_buffer::{Bounded, Fixed, SliceMut};
use rayon::prelude::*;
use stateright::{Checker, Model, Property};
use std::collections::VecDeque;
use std::sync::atomic::{AtomicU64, Ordering::Relaxed};

const CANARY: u32 = 0xC0FFEE;
const NCANARY: usize = 4;

// ---------------------------------------------------------------- actions
#[derive(Clone, Copy, Debug, Hash, PartialEq, Eq)]
enum Act {
    Push,
    Pop,
    Get(u16),
    GetMut(u16),
    Index(u16),
    IndexMut(u16),
    Iter,
    IterMut,
    Slices,
    SlicesMut,
    Drain(u16),
    Extend(u16),
    ExtendFail(u16), // extend from an iterator that yields k items and then panics (caught)
    Meta,
    // fixed only
    SetFirst(u16),
    IterLoop,
}

impl Act {
    fn name(self) -> String {
        match self {
            Act::Push => "push".into(),
            Act::Pop => "pop".into(),
            Act::Get(i) => format!("get:{i}"),
            Act::GetMut(i) => format!("get_mut:{i}"),
            Act::Index(i) => format!("index:{i}"),
            Act::IndexMut(i) => format!("index_mut:{i}"),
            Act::Iter => "iter".into(),
            Act::IterMut => "iter_mut".into(),
            Act::Slices => "slices".into(),
            Act::SlicesMut => "slices_mut".into(),
            Act::Drain(k) => format!("drain:{k}"),
            Act::Extend(k) => format!("extend:{k}"),
            Act::ExtendFail(k) => format!("extend_fail:{k}"),
            Act::Meta => "meta".into(),
            Act::SetFirst(i) => format!("set_first:{i}"),
            Act::IterLoop => "iter_loop".into(),
        }
    }
    fn kind(self) -> &'static str {
        match self {
            Act::Push => "push",
            Act::Pop => "pop",
            Act::Get(_) => "get",
            Act::GetMut(_) => "get_mut",
            Act::Index(_) => "index",
            Act::IndexMut(_) => "index_mut",
            Act::Iter => "iter",
            Act::IterMut => "iter_mut",
            Act::Slices => "slices",
            Act::SlicesMut => "slices_mut",
            Act::Drain(_) => "drain",
            Act::Extend(_) => "extend",
            Act::ExtendFail(_) => "extend_fail",
            Act::Meta => "meta",
            Act::SetFirst(_) => "set_first",
            Act::IterLoop => "iter_loop",
        }
    }
    fn parse(s: &str) -> Option<Act> {
        let (h, a) = match s.split_once(':') {
            Some((h, a)) => (h, a.parse::<u16>().ok()?),
            None => (s, 0),
        };
        Some(match h {
            "push" => Act::Push,
            "pop" => Act::Pop,
            "get" => Act::Get(a),
            "get_mut" => Act::GetMut(a),
            "index" => Act::Index(a),
            "index_mut" => Act::IndexMut(a),
            "iter" => Act::Iter,
            "iter_mut" => Act::IterMut,
            "slices" => Act::Slices,
            "slices_mut" => Act::SlicesMut,
            "drain" => Act::Drain(a),
            "extend" => Act::Extend(a),
            "extend_fail" => Act::ExtendFail(a),
            "meta" => Act::Meta,
            "set_first" => Act::SetFirst(a),
            "iter_loop" => Act::IterLoop,
            _ => return None,
        })
    }
}

// ------------------------------------------------- dyn view of the real buffers
/// Everything the explorer does to a real `Bounded`, object-safe so that one
/// step function serves every storage type.
trait BQ {
    fn push(&mut self, x: u32) -> Option<u32>;
    fn pop(&mut self) -> Option<u32>;
    fn get(&self, i: usize) -> Option<u32>;
    fn get_mut_set(&mut self, i: usize, new: u32) -> Option<u32>;
    fn index(&self, i: usize) -> u32;
    fn index_mut_set(&mut self, i: usize, new: u32) -> u32;
    fn iter(&self) -> Vec<u32>;
    fn iter_mut_add(&mut self, d: u32) -> Vec<u32>;
    fn slices(&self) -> (Vec<u32>, Vec<u32>);
    fn slices_mut_add(&mut self, d: u32) -> (Vec<u32>, Vec<u32>);
    fn drain_take(&mut self, k: usize) -> (Vec<Option<u32>>, Vec<(usize, Option<usize>, usize)>);
    fn extend(&mut self, xs: &[u32]);
    fn extend_fail(&mut self, xs: &[u32]);
    fn meta(&self) -> (usize, bool, bool, usize);
}

impl<S: SliceMut<Element = u32>> BQ for Bounded<S> {
    fn push(&mut self, x: u32) -> Option<u32> {
        Bounded::push(self, x)
    }
    fn pop(&mut self) -> Option<u32> {
        Bounded::pop(self)
    }
    fn get(&self, i: usize) -> Option<u32> {
        Bounded::get(self, i).copied()
    }
    fn get_mut_set(&mut self, i: usize, new: u32) -> Option<u32> {
        Bounded::get_mut(self, i).map(|r| std::mem::replace(r, new))
    }
    fn index(&self, i: usize) -> u32 {
        self[i]
    }
    fn index_mut_set(&mut self, i: usize, new: u32) -> u32 {
        std::mem::replace(&mut self[i], new)
    }
    fn iter(&self) -> Vec<u32> {
        Bounded::iter(self).copied().collect()
    }
    fn iter_mut_add(&mut self, d: u32) -> Vec<u32> {
        Bounded::iter_mut(self)
            .map(|r| {
                let o = *r;
                *r += d;
                o
            })
            .collect()
    }
    fn slices(&self) -> (Vec<u32>, Vec<u32>) {
        let (a, b) = Bounded::slices(self);
        (a.to_vec(), b.to_vec())
    }
    fn slices_mut_add(&mut self, d: u32) -> (Vec<u32>, Vec<u32>) {
        let (a, b) = Bounded::slices_mut(self);
        let r = (a.to_vec(), b.to_vec());
        for x in a.iter_mut().chain(b.iter_mut()) {
            *x += d;
        }
        r
    }
    fn drain_take(&mut self, k: usize) -> (Vec<Option<u32>>, Vec<(usize, Option<usize>, usize)>) {
        let mut d = self.drain();
        let mut items = Vec::new();
        let mut hints = Vec::new();
        for _ in 0..k {
            let (lo, hi) = d.size_hint();
            hints.push((lo, hi, ExactSizeIterator::len(&d)));
            items.push(d.next());
        }
        (items, hints)
    }
    fn extend(&mut self, xs: &[u32]) {
        Extend::extend(self, xs.iter().copied())
    }
    fn extend_fail(&mut self, xs: &[u32]) {
        Extend::extend(self, xs.iter().copied().chain((0..1).map(|_| -> u32 { panic!("injected iterator failure") })))
    }
    fn meta(&self) -> (usize, bool, bool, usize) {
        (self.len(), self.is_empty(), self.is_full(), self.max_len())
    }
}

trait FQ {
    fn push(&mut self, x: u32) -> u32;
    fn get(&self, i: usize) -> u32;
    fn get_mut_set(&mut self, i: usize, new: u32) -> u32;
    fn index(&self, i: usize) -> u32;
    fn index_mut_set(&mut self, i: usize, new: u32) -> u32;
    fn set_first(&mut self, i: usize);
    fn iter(&self) -> Vec<u32>;
    fn iter_loop_take(&self, k: usize) -> Vec<u32>;
    fn iter_mut_add(&mut self, d: u32) -> Vec<u32>;
    fn slices(&self) -> (Vec<u32>, Vec<u32>);
    fn slices_mut_add(&mut self, d: u32) -> (Vec<u32>, Vec<u32>);
    fn extend(&mut self, xs: &[u32]);
    fn extend_fail(&mut self, xs: &[u32]);
    fn len(&self) -> usize;
}

impl<S: SliceMut<Element = u32>> FQ for Fixed<S> {
    fn push(&mut self, x: u32) -> u32 {
        Fixed::push(self, x)
    }
    fn get(&self, i: usize) -> u32 {
        *Fixed::get(self, i)
    }
    fn get_mut_set(&mut self, i: usize, new: u32) -> u32 {
        std::mem::replace(Fixed::get_mut(self, i), new)
    }
    fn index(&self, i: usize) -> u32 {
        self[i]
    }
    fn index_mut_set(&mut self, i: usize, new: u32) -> u32 {
        std::mem::replace(&mut self[i], new)
    }
    fn set_first(&mut self, i: usize) {
        Fixed::set_first(self, i)
    }
    fn iter(&self) -> Vec<u32> {
        Fixed::iter(self).copied().collect()
    }
    fn iter_loop_take(&self, k: usize) -> Vec<u32> {
        Fixed::iter_loop(self).take(k).copied().collect()
    }
    fn iter_mut_add(&mut self, d: u32) -> Vec<u32> {
        Fixed::iter_mut(self)
            .map(|r| {
                let o = *r;
                *r += d;
                o
            })
            .collect()
    }
    fn slices(&self) -> (Vec<u32>, Vec<u32>) {
        let (a, b) = Fixed::slices(self);
        (a.to_vec(), b.to_vec())
    }
    fn slices_mut_add(&mut self, d: u32) -> (Vec<u32>, Vec<u32>) {
        let (a, b) = Fixed::slices_mut(self);
        let r = (a.to_vec(), b.to_vec());
        for x in a.iter_mut().chain(b.iter_mut()) {
            *x += d;
        }
        r
    }
    fn extend(&mut self, xs: &[u32]) {
        Extend::extend(self, xs.iter().copied())
    }
    fn extend_fail(&mut self, xs: &[u32]) {
        Extend::extend(self, xs.iter().copied().chain((0..1).map(|_| -> u32 { panic!("injected iterator failure") })))
    }
    fn len(&self) -> usize {
        Fixed::len(self)
    }
}

// ------------------------------------------------------------ one real step
struct Mismatch {
    key: String,
    msg: String,
}

fn mm<T>(key: &str, msg: String) -> Result<T, Mismatch> {
    Err(Mismatch { key: key.to_string(), msg })
}

/// Apply `act` to the real bounded buffer and to the reference deque; compare
/// the observation. `fresh` supplies labels for pushed elements.
fn bounded_step(b: &mut dyn BQ, q: &mut VecDeque<u32>, cap: usize, act: Act, fresh: &mut u32) -> Result<u64, Mismatch> {
    let k = format!("bounded.{}", act.kind());
    let mut next = || {
        *fresh += 1;
        *fresh
    };
    let mut obs: u64 = 0;
    match act {
        Act::Push => {
            let x = next();
            let exp = if q.len() == cap { q.pop_front() } else { None };
            q.push_back(x);
            let got = catch(|| b.push(x));
            if got != Ok(exp) {
                return mm(&k, format!("push({x}) returned {got:?}, reference {exp:?}"));
            }
            obs = exp.map(|e| e as u64 + 1).unwrap_or(0);
        }
        Act::Pop => {
            let exp = q.pop_front();
            let got = catch(|| b.pop());
            if got != Ok(exp) {
                return mm(&k, format!("pop() returned {got:?}, reference {exp:?}"));
            }
            obs = exp.map(|e| e as u64 + 1).unwrap_or(0);
        }
        Act::Get(i) => {
            let exp = q.get(i as usize).copied();
            let got = catch(|| b.get(i as usize));
            if got != Ok(exp) {
                return mm(&k, format!("get({i}) returned {got:?}, reference {exp:?} (queue {q:?})"));
            }
            obs = exp.map(|e| e as u64 + 1).unwrap_or(0);
        }
        Act::GetMut(i) => {
            let x = next();
            let exp = q.get_mut(i as usize).map(|r| std::mem::replace(r, x));
            let got = catch(|| b.get_mut_set(i as usize, x));
            if got != Ok(exp) {
                return mm(&k, format!("get_mut({i}) gave {got:?}, reference {exp:?} (queue before write {q:?})"));
            }
            obs = exp.map(|e| e as u64 + 1).unwrap_or(0);
        }
        Act::Index(i) => {
            let exp = q.get(i as usize).copied();
            let got = catch(|| b.index(i as usize)).ok();
            if got != exp {
                return mm(&k, format!("[{i}] gave {got:?} (None = panic), reference {exp:?}"));
            }
            obs = exp.map(|e| e as u64 + 1).unwrap_or(0);
        }
        Act::IndexMut(i) => {
            let x = next();
            let exp = q.get_mut(i as usize).map(|r| std::mem::replace(r, x));
            let got = catch(|| b.index_mut_set(i as usize, x)).ok();
            if got != exp {
                return mm(&k, format!("[{i}] (mut) gave {got:?} (None = panic), reference {exp:?}"));
            }
            obs = exp.map(|e| e as u64 + 1).unwrap_or(0);
        }
        Act::Iter => {
            let exp: Vec<u32> = q.iter().copied().collect();
            let got = catch(|| b.iter());
            if got.as_ref() != Ok(&exp) {
                return mm(&k, format!("iter() yielded {got:?}, reference {exp:?}"));
            }
            obs = exp.len() as u64;
        }
        Act::IterMut => {
            let exp: Vec<u32> = q.iter().copied().collect();
            for r in q.iter_mut() {
                *r += 1000;
            }
            let got = catch(|| b.iter_mut_add(1000));
            if got.as_ref() != Ok(&exp) {
                return mm(&k, format!("iter_mut() yielded {got:?}, reference {exp:?}"));
            }
            obs = exp.len() as u64;
        }
        Act::Slices | Act::SlicesMut => {
            let exp: Vec<u32> = q.iter().copied().collect();
            let got = if act == Act::Slices {
                catch(|| b.slices())
            } else {
                for r in q.iter_mut() {
                    *r += 2000;
                }
                catch(|| b.slices_mut_add(2000))
            };
            match got {
                Ok((a, c)) => {
                    let cat: Vec<u32> = a.iter().chain(c.iter()).copied().collect();
                    if cat != exp {
                        return mm(&k, format!("slices {a:?} ++ {c:?} != reference {exp:?}"));
                    }
                    obs = (a.len() as u64) << 8 | c.len() as u64;
                }
                Err(p) => return mm(&k, format!("slices panicked: {p}")),
            }
        }
        Act::Drain(n) => {
            let mut exp = Vec::new();
            let mut exp_hints = Vec::new();
            for _ in 0..n {
                exp_hints.push((q.len(), Some(q.len()), q.len()));
                exp.push(q.pop_front());
            }
            let got = catch(|| b.drain_take(n as usize));
            match got {
                Ok((items, hints)) => {
                    if items != exp {
                        return mm(&k, format!("drain().take({n}) yielded {items:?}, reference {exp:?}"));
                    }
                    // the drain iterator's size_hint / len are not part of the property: recorded, not judged
                    let _ = (&hints, &exp_hints);
                    obs = items.iter().filter(|x| x.is_some()).count() as u64;
                }
                Err(p) => return mm(&k, format!("drain panicked: {p}")),
            }
        }
        Act::Extend(n) => {
            let xs: Vec<u32> = (0..n).map(|_| next()).collect();
            for &x in &xs {
                if q.len() == cap {
                    q.pop_front();
                }
                q.push_back(x);
            }
            if let Err(p) = catch(|| b.extend(&xs)) {
                return mm(&k, format!("extend panicked: {p}"));
            }
            obs = n as u64;
        }
        Act::ExtendFail(n) => {
            // the iterator fails after n items; the caller catches that and keeps the buffer. The
            // property does not say how far such an extend got (an implementation may store items
            // as they come or commit them at the end), so only this is judged: the buffer is still
            // a valid queue over elements it held or was handed -- nothing else is exposed -- and
            // every later observation agrees with it (the model continues from the observed content)
            let xs: Vec<u32> = (0..n).map(|_| next()).collect();
            let _ = catch(|| b.extend_fail(&xs));
            let got = match catch(|| b.iter()) {
                Ok(g) => g,
                Err(p) => return mm(&k, format!("iter() after a caught failure inside extend panicked: {p}")),
            };
            if got.len() > cap || got.iter().any(|x| !q.contains(x) && !xs.contains(x)) {
                return mm(&k, format!("after extend() from an iterator that yielded {xs:?} and then panicked (caught), the buffer of capacity {cap} holds {got:?}: elements that were neither in the queue {q:?} nor handed over"));
            }
            *q = got.iter().copied().collect();
            obs = got.len() as u64;
        }
        Act::Meta => {
            let exp = (q.len(), q.is_empty(), q.len() == cap, cap);
            let got = catch(|| b.meta());
            if got != Ok(exp) {
                return mm(&k, format!("(len,is_empty,is_full,max_len) = {got:?}, reference {exp:?}"));
            }
            obs = q.len() as u64;
        }
        Act::SetFirst(_) | Act::IterLoop => unreachable!(),
    }
    Ok(obs)
}

fn fixed_step(b: &mut dyn FQ, q: &mut VecDeque<u32>, first: &mut usize, n: usize, act: Act, fresh: &mut u32) -> Result<u64, Mismatch> {
    let k = format!("fixed.{}", act.kind());
    let mut next = || {
        *fresh += 1;
        *fresh
    };
    let obs: u64;
    match act {
        Act::Push => {
            let x = next();
            let exp = q.pop_front().unwrap();
            q.push_back(x);
            *first = (*first + 1) % n;
            let got = catch(|| b.push(x));
            if got != Ok(exp) {
                return mm(&k, format!("push({x}) returned {got:?}, reference {exp}"));
            }
            obs = exp as u64;
        }
        Act::Get(i) | Act::Index(i) => {
            let exp = q[i as usize % n];
            let got = if matches!(act, Act::Get(_)) { catch(|| b.get(i as usize)) } else { catch(|| b.index(i as usize)) };
            if got != Ok(exp) {
                return mm(&k, format!("{}({i}) returned {got:?}, reference {exp}", act.kind()));
            }
            obs = exp as u64;
        }
        Act::GetMut(i) | Act::IndexMut(i) => {
            let x = next();
            let exp = std::mem::replace(&mut q[i as usize % n], x);
            let got = if matches!(act, Act::GetMut(_)) {
                catch(|| b.get_mut_set(i as usize, x))
            } else {
                catch(|| b.index_mut_set(i as usize, x))
            };
            if got != Ok(exp) {
                return mm(&k, format!("{}({i}) returned {got:?}, reference {exp}", act.kind()));
            }
            obs = exp as u64;
        }
        Act::SetFirst(i) => {
            // documented: the index is a position in the backing slice, wrapped modulo N
            let nf = i as usize % n;
            q.rotate_left((nf + n - *first) % n);
            *first = nf;
            if let Err(p) = catch(|| b.set_first(i as usize)) {
                return mm(&k, format!("set_first({i}) panicked: {p}"));
            }
            obs = i as u64;
        }
        Act::Iter => {
            let exp: Vec<u32> = q.iter().copied().collect();
            let got = catch(|| b.iter());
            if got.as_ref() != Ok(&exp) {
                return mm(&k, format!("iter() yielded {got:?}, reference {exp:?}"));
            }
            obs = exp.len() as u64;
        }
        Act::IterLoop => {
            let kk = 2 * n + 1;
            let exp: Vec<u32> = (0..kk).map(|i| q[i % n]).collect();
            let got = catch(|| b.iter_loop_take(kk));
            if got.as_ref() != Ok(&exp) {
                return mm(&k, format!("iter_loop().take({kk}) yielded {got:?}, reference {exp:?}"));
            }
            obs = exp.len() as u64;
        }
        Act::IterMut => {
            let exp: Vec<u32> = q.iter().copied().collect();
            for r in q.iter_mut() {
                *r += 1000;
            }
            let got = catch(|| b.iter_mut_add(1000));
            if got.as_ref() != Ok(&exp) {
                return mm(&k, format!("iter_mut() yielded {got:?}, reference {exp:?}"));
            }
            obs = exp.len() as u64;
        }
        Act::Slices | Act::SlicesMut => {
            let exp: Vec<u32> = q.iter().copied().collect();
            let got = if act == Act::Slices {
                catch(|| b.slices())
            } else {
                for r in q.iter_mut() {
                    *r += 2000;
                }
                catch(|| b.slices_mut_add(2000))
            };
            match got {
                Ok((a, c)) => {
                    let cat: Vec<u32> = a.iter().chain(c.iter()).copied().collect();
                    if cat != exp {
                        return mm(&k, format!("slices {a:?} ++ {c:?} != reference {exp:?}"));
                    }
                    obs = (a.len() as u64) << 8 | c.len() as u64;
                }
                Err(p) => return mm(&k, format!("slices panicked: {p}")),
            }
        }
        Act::Extend(m) => {
            let xs: Vec<u32> = (0..m).map(|_| next()).collect();
            for &x in &xs {
                q.pop_front();
                q.push_back(x);
                *first = (*first + 1) % n;
            }
            if let Err(p) = catch(|| b.extend(&xs)) {
                return mm(&k, format!("extend panicked: {p}"));
            }
            obs = m as u64;
        }
        Act::ExtendFail(m) => {
            // (see the bounded buffer: how far a failing extend got is not fixed by the property)
            let xs: Vec<u32> = (0..m).map(|_| next()).collect();
            let _ = catch(|| b.extend_fail(&xs));
            let got = match catch(|| b.iter()) {
                Ok(g) => g,
                Err(p) => return mm(&k, format!("iter() after a caught failure inside extend panicked: {p}")),
            };
            if got.len() != n || got.iter().any(|x| !q.contains(x) && !xs.contains(x)) {
                return mm(&k, format!("after extend() from an iterator that yielded {xs:?} and then panicked (caught), the buffer of length {n} holds {got:?}: elements that were neither in the buffer {q:?} nor handed over"));
            }
            *q = got.iter().copied().collect();
            // the real first index (set_first takes raw indices): the first slice runs from it to the end of the storage
            if let Ok((a, _)) = catch(|| b.slices()) {
                *first = (n - a.len()) % n;
            }
            obs = got.len() as u64;
        }
        Act::Meta => {
            let got = catch(|| b.len());
            if got != Ok(n) {
                return mm(&k, format!("len() = {got:?}, reference {n}"));
            }
            obs = n as u64;
        }
        Act::Pop | Act::Drain(_) => unreachable!(),
    }
    Ok(obs)
}

// --------------------------------------------------- storage kinds and paths
#[derive(Clone, Copy, Debug, Hash, PartialEq, Eq)]
enum Kind {
    Window, // &mut [u32] inside a larger Vec with canaries on both sides
    Vec,
    Boxed,
    Array,
}
impl Kind {
    fn name(self) -> &'static str {
        match self {
            Kind::Window => "window",
            Kind::Vec => "vec",
            Kind::Boxed => "boxed",
            Kind::Array => "array",
        }
    }
    fn parse(s: &str) -> Option<Kind> {
        Some(match s {
            "window" => Kind::Window,
            "vec" => Kind::Vec,
            "boxed" => Kind::Boxed,
            "array" => Kind::Array,
            _ => return None,
        })
    }
}

/// canonical storage of a bounded state: live element at queue position i is
/// labelled 100+i, the stale slot at physical index p is labelled 900+p.
fn bounded_storage(cap: usize, start: usize, len: usize) -> (Vec<u32>, VecDeque<u32>) {
    let mut data: Vec<u32> = (0..cap).map(|p| 900 + p as u32).collect();
    let mut q = VecDeque::new();
    for i in 0..len {
        data[(start + i) % cap] = 100 + i as u32;
        q.push_back(100 + i as u32);
    }
    (data, q)
}

fn fixed_storage(n: usize, first: usize) -> (Vec<u32>, VecDeque<u32>) {
    let mut data = vec![0u32; n];
    let mut q = VecDeque::new();
    for i in 0..n {
        data[(first + i) % n] = 100 + i as u32;
        q.push_back(100 + i as u32);
    }
    (data, q)
}

/// After the path: the abstract queue re-derived from the raw parts must equal
/// the reference queue.
fn check_raw_bounded(cap: usize, start: usize, len: usize, data: &[u32], q: &VecDeque<u32>, key: &str) -> Result<(), Mismatch> {
    if data.len() != cap || start >= cap || len > cap {
        return mm(key, format!("raw parts invalid after the operation: start={start} len={len} storage len={} (capacity {cap})", data.len()));
    }
    let abs: Vec<u32> = (0..len).map(|i| data[(start + i) % cap]).collect();
    let r: Vec<u32> = q.iter().copied().collect();
    if abs != r {
        return mm(key, format!("queue re-derived from raw parts {abs:?} (start={start},len={len},data={data:?}) != reference {r:?}"));
    }
    Ok(())
}

macro_rules! with_array {
    ($cap:expr, $data:expr, |$arr:ident| $body:expr) => {
        match $cap {
            1 => {
                let $arr: [u32; 1] = $data[..].try_into().unwrap();
                $body
            }
            2 => {
                let $arr: [u32; 2] = $data[..].try_into().unwrap();
                $body
            }
            3 => {
                let $arr: [u32; 3] = $data[..].try_into().unwrap();
                $body
            }
            4 => {
                let $arr: [u32; 4] = $data[..].try_into().unwrap();
                $body
            }
            _ => panic!("array kind supports capacities 1..=4"),
        }
    };
}

/// Run a path of actions on a real Bounded built from raw parts. Returns the
/// raw parts afterwards and a fingerprint of the observations.
fn bounded_path(kind: Kind, cap: usize, start: usize, len: usize, acts: &[Act]) -> Result<(usize, usize, u64), Mismatch> {
    let (data, mut q) = bounded_storage(cap, start, len);
    let mut fresh = 500u32;
    let mut fp = 0u64;
    let mut run = |b: &mut dyn BQ, q: &mut VecDeque<u32>| -> Result<(), Mismatch> {
        for &a in acts {
            let o = bounded_step(b, q, cap, a, &mut fresh)?;
            fp = common::mix(fp, o);
        }
        Ok(())
    };
    let lastkey = format!("bounded.{}", acts.last().map(|a| a.kind()).unwrap_or("none"));
    let (s2, l2) = match kind {
        Kind::Window => {
            let mut outer = vec![CANARY; NCANARY];
            outer.extend_from_slice(&data);
            outer.extend(std::iter::repeat(CANARY).take(NCANARY));
            let (s2, l2) = {
                let win: &mut [u32] = &mut outer[NCANARY..NCANARY + cap];
                let mut b = Bounded::from_raw_parts(start, len, win);
                run(&mut b, &mut q)?;
                let (s2, l2, win) = unsafe { b.into_raw_parts() };
                check_raw_bounded(cap, s2, l2, win, &q, &lastkey)?;
                (s2, l2)
            };
            if outer[..NCANARY].iter().chain(outer[NCANARY + cap..].iter()).any(|&c| c != CANARY) {
                return mm(&lastkey, format!("wrote outside the backing slice: {outer:?}"));
            }
            (s2, l2)
        }
        Kind::Vec => {
            let mut b = Bounded::from_raw_parts(start, len, data.clone());
            run(&mut b, &mut q)?;
            let (s2, l2, d) = unsafe { b.into_raw_parts() };
            check_raw_bounded(cap, s2, l2, &d, &q, &lastkey)?;
            (s2, l2)
        }
        Kind::Boxed => {
            let mut b = Bounded::from_raw_parts(start, len, data.clone().into_boxed_slice());
            run(&mut b, &mut q)?;
            let (s2, l2, d) = unsafe { b.into_raw_parts() };
            check_raw_bounded(cap, s2, l2, &d, &q, &lastkey)?;
            (s2, l2)
        }
        Kind::Array => with_array!(cap, data, |arr| {
            let mut b = Bounded::from_raw_parts(start, len, arr);
            run(&mut b, &mut q)?;
            let (s2, l2, d) = unsafe { b.into_raw_parts() };
            check_raw_bounded(cap, s2, l2, &d, &q, &lastkey)?;
            (s2, l2)
        }),
    };
    Ok((s2, l2, fp))
}

fn fixed_path(kind: Kind, n: usize, first: usize, acts: &[Act]) -> Result<(usize, u64), Mismatch> {
    let (data, mut q) = fixed_storage(n, first);
    let mut fresh = 500u32;
    let mut fp = 0u64;
    let mut rfirst = first;
    let mut run = |b: &mut dyn FQ, q: &mut VecDeque<u32>| -> Result<(), Mismatch> {
        for &a in acts {
            let o = fixed_step(b, q, &mut rfirst, n, a, &mut fresh)?;
            fp = common::mix(fp, o);
        }
        Ok(())
    };
    let lastkey = format!("fixed.{}", acts.last().map(|a| a.kind()).unwrap_or("none"));
    let check = |f2: usize, d: &[u32], q: &VecDeque<u32>| -> Result<(), Mismatch> {
        if d.len() != n || f2 >= n {
            return mm(&lastkey, format!("raw parts invalid: first={f2} storage len={} (N={n})", d.len()));
        }
        let abs: Vec<u32> = (0..n).map(|i| d[(f2 + i) % n]).collect();
        let r: Vec<u32> = q.iter().copied().collect();
        if abs != r {
            return mm(&lastkey, format!("contents re-derived from raw parts {abs:?} (first={f2}, data={d:?}) != reference {r:?}"));
        }
        Ok(())
    };
    let f2 = match kind {
        Kind::Window => {
            let mut outer = vec![CANARY; NCANARY];
            outer.extend_from_slice(&data);
            outer.extend(std::iter::repeat(CANARY).take(NCANARY));
            let f2 = {
                let win: &mut [u32] = &mut outer[NCANARY..NCANARY + n];
                let mut b = Fixed::from_raw_parts(first, win);
                run(&mut b, &mut q)?;
                let (f2, win) = b.into_raw_parts();
                check(f2, win, &q)?;
                f2
            };
            if outer[..NCANARY].iter().chain(outer[NCANARY + n..].iter()).any(|&c| c != CANARY) {
                return mm(&lastkey, format!("wrote outside the backing slice: {outer:?}"));
            }
            f2
        }
        Kind::Vec => {
            let mut b = Fixed::from_raw_parts(first, data.clone());
            run(&mut b, &mut q)?;
            let (f2, d) = b.into_raw_parts();
            check(f2, &d, &q)?;
            f2
        }
        Kind::Boxed => {
            let mut b = Fixed::from_raw_parts(first, data.clone().into_boxed_slice());
            run(&mut b, &mut q)?;
            let (f2, d) = b.into_raw_parts();
            check(f2, &d, &q)?;
            f2
        }
        Kind::Array => with_array!(n, data, |arr| {
            let mut b = Fixed::from_raw_parts(first, arr);
            run(&mut b, &mut q)?;
            let (f2, d) = b.into_raw_parts();
            check(f2, &d, &q)?;
            f2
        }),
    };
    Ok((f2, fp))
}

// ------------------------------------------------------------ the case type
#[derive(Clone, Debug)]
struct Case {
    sys: &'static str, // "bounded" | "fixed" | "ctor"
    kind: Kind,
    cap: usize,
    start: usize, // first, for fixed
    len: usize,
    acts: Vec<Act>,
}

impl Case {
    fn to_json(&self) -> Value {
        json!({"sys": self.sys, "kind": self.kind.name(), "cap": self.cap, "start": self.start, "len": self.len,
               "actions": self.acts.iter().map(|a| a.name()).collect::<Vec<_>>()})
    }
    fn from_json(v: &Value) -> Option<Case> {
        let sys = match v.get("sys")?.as_str()? {
            "bounded" => "bounded",
            "fixed" => "fixed",
            "ctor" => "ctor",
            _ => return None,
        };
        Some(Case {
            sys,
            kind: Kind::parse(v.get("kind")?.as_str()?)?,
            cap: v.get("cap")?.as_u64()? as usize,
            start: v.get("start")?.as_u64()? as usize,
            len: v.get("len")?.as_u64()? as usize,
            acts: v.get("actions")?.as_array()?.iter().map(|a| Act::parse(a.as_str()?)).collect::<Option<Vec<_>>>()?,
        })
    }
    /// Run on fresh real objects. Ok((successor raw state, observation fingerprint)).
    fn run(&self) -> Result<(usize, usize, u64), Mismatch> {
        match self.sys {
            "bounded" => bounded_path(self.kind, self.cap, self.start, self.len, &self.acts),
            "fixed" => fixed_path(self.kind, self.cap, self.start, &self.acts).map(|(f, fp)| (f, self.cap, fp)),
            _ => ctor_case(self.cap, self.start, self.len).map(|_| (0, 0, 0)),
        }
    }
}

/// Constructors: from_raw_parts must accept exactly the valid raw states and
/// panic on every other one; From / from_full / FromIterator start states.
fn ctor_case(cap: usize, start: usize, len: usize) -> Result<(), Mismatch> {
    let data: Vec<u32> = (0..cap as u32).collect();
    let ok = start < cap && len <= cap;
    let got = catch(|| {
        let b = Bounded::from_raw_parts(start, len, data.clone());
        unsafe { b.into_raw_parts() }
    });
    match (&got, ok) {
        (Ok((s, l, d)), true) if *s == start && *l == len && d == &data => {}
        (Err(_), false) => {}
        _ => return mm("bounded.from_raw_parts", format!("from_raw_parts({start},{len},cap {cap}): {:?}, valid={ok}", got.map(|(s, l, _)| (s, l)))),
    }
    // Fixed: `start` plays the role of `first`
    if len == 0 {
        let okf = start < cap;
        let got = catch(|| Fixed::from_raw_parts(start, data.clone()).into_raw_parts());
        match (&got, okf) {
            (Ok((f, d)), true) if *f == start && d == &data => {}
            (Err(_), false) => {}
            _ => return mm("fixed.from_raw_parts", format!("Fixed::from_raw_parts({start}, N={cap}): {:?}, valid={okf}", got.map(|(f, _)| f))),
        }
    }
    if start == 0 && len == 0 {
        // From<S> => empty at 0 (panics for empty storage), from_full => full at 0
        let got = catch(|| unsafe { Bounded::from(data.clone()).into_raw_parts() }).map(|(s, l, _)| (s, l));
        let exp = if cap > 0 { Ok((0, 0)) } else { Err(()) };
        if got.clone().map_err(|_| ()) != exp {
            return mm("bounded.from", format!("Bounded::from(storage of {cap}) gave {got:?}"));
        }
        let got = catch(|| unsafe { Bounded::from_full(data.clone()).into_raw_parts() }).map(|(s, l, _)| (s, l));
        let exp = if cap > 0 { Ok((0, cap)) } else { Err(()) };
        if got.clone().map_err(|_| ()) != exp {
            return mm("bounded.from_full", format!("Bounded::from_full(storage of {cap}) gave {got:?}"));
        }
        let got = catch(|| unsafe { data.iter().copied().collect::<Bounded<Vec<u32>>>().into_raw_parts() }).map(|(s, l, _)| (s, l));
        let exp = if cap > 0 { Ok((0, 0)) } else { Err(()) };
        if got.clone().map_err(|_| ()) != exp {
            return mm("bounded.from_iter", format!("Bounded::from_iter({cap} items) gave {got:?}"));
        }
        let got = catch(|| Fixed::from(data.clone()).into_raw_parts()).map(|(f, _)| f);
        let exp = if cap > 0 { Ok(0) } else { Err(()) };
        if got.clone().map_err(|_| ()) != exp {
            return mm("fixed.from", format!("Fixed::from(storage of {cap}) gave {got:?}"));
        }
        let got = catch(|| data.iter().copied().collect::<Fixed<Vec<u32>>>().into_raw_parts()).map(|(f, _)| f);
        if got.clone().map_err(|_| ()) != exp {
            return mm("fixed.from_iter", format!("Fixed::from_iter({cap} items) gave {got:?}"));
        }
    }
    Ok(())
}

// -------------------------------------------------------- stateright models
#[derive(Clone, Debug, Hash, PartialEq, Eq)]
struct St {
    start: u16,
    len: u16,
    bad: bool,
}

struct RingModel {
    ctx: &'static Ctx,
    sys: &'static str,
    kind: Kind,
    cap: usize,
    /// large capacities: index-taking actions only at structured indices
    reduced: bool,
    transitions: &'static AtomicU64,
}

fn bounded_alphabet(cap: usize) -> Vec<Act> {
    let mut v = vec![Act::Push, Act::Pop, Act::Meta, Act::Iter, Act::IterMut, Act::Slices, Act::SlicesMut];
    for i in 0..=(cap + 1) as u16 {
        v.extend([Act::Get(i), Act::GetMut(i), Act::Index(i), Act::IndexMut(i), Act::Drain(i)]);
    }
    v.extend([Act::Extend(1), Act::Extend(2), Act::Extend(cap as u16 + 1)]);
    v.extend([Act::ExtendFail(0), Act::ExtendFail(1), Act::ExtendFail(2), Act::ExtendFail(cap as u16 + 1)]);
    v
}

fn fixed_alphabet(n: usize) -> Vec<Act> {
    let mut v = vec![Act::Push, Act::Meta, Act::Iter, Act::IterLoop, Act::IterMut, Act::Slices, Act::SlicesMut];
    for i in 0..=(2 * n + 1) as u16 {
        v.extend([Act::Get(i), Act::GetMut(i), Act::Index(i), Act::IndexMut(i), Act::SetFirst(i)]);
    }
    v.extend([Act::Extend(1), Act::Extend(2), Act::Extend(n as u16 + 1)]);
    v.extend([Act::ExtendFail(0), Act::ExtendFail(1), Act::ExtendFail(2), Act::ExtendFail(n as u16 + 1)]);
    v
}

impl Model for RingModel {
    type State = St;
    type Action = Act;
    fn init_states(&self) -> Vec<St> {
        let mut v = Vec::new();
        if self.sys == "bounded" {
            for s in 0..self.cap {
                for l in 0..=self.cap {
                    v.push(St { start: s as u16, len: l as u16, bad: false });
                }
            }
        } else {
            for f in 0..self.cap {
                v.push(St { start: f as u16, len: self.cap as u16, bad: false });
            }
        }
        v
    }
    fn actions(&self, st: &St, out: &mut Vec<Act>) {
        if st.bad {
            return;
        }
        let full = if self.sys == "bounded" { bounded_alphabet(self.cap) } else { fixed_alphabet(self.cap) };
        if !self.reduced {
            out.extend(full);
        } else {
            let c = self.cap as u16;
            let keep = |i: u16| i <= 1 || i == c / 2 || i + 2 >= c && i <= c + 1 || i == 2 * c - 1 || i >= 2 * c;
            out.extend(full.into_iter().filter(|a| match a {
                Act::Get(i) | Act::GetMut(i) | Act::Index(i) | Act::IndexMut(i) | Act::Drain(i) | Act::SetFirst(i) => keep(*i),
                _ => true,
            }));
        }
    }
    fn next_state(&self, st: &St, a: Act) -> Option<St> {
        let case = Case { sys: self.sys, kind: self.kind, cap: self.cap, start: st.start as usize, len: st.len as usize, acts: vec![a] };
        // hand-formatted (this runs once per transition): same JSON as case.to_json()
        let _guard_scope = guard::scoped(&format!("{{\"sys\":\"{}\",\"kind\":\"{}\",\"cap\":{},\"start\":{},\"len\":{},\"actions\":[\"{}\"]}}", self.sys, self.kind.name(), self.cap, st.start, st.len, a.name()));
        self.transitions.fetch_add(1, Relaxed);
        match case.run() {
            Ok((s2, l2, fp)) => {
                self.ctx.observe(common::mix(common::mix(common::fnv_str(&format!("{}{}{}{}", self.sys, self.cap, st.start, st.len)), common::fnv_str(&a.name())), fp));
                Some(St { start: s2 as u16, len: l2 as u16, bad: false })
            }
            Err(m) => {
                let known = self.ctx.is_known(&m.key).is_some();
                self.ctx.violation(&m.key, case.to_json(), m.msg, Some(&|| case.run().err().map(|m| m.msg)));
                if known {
                    // a known finding: not a mismatch for the model; the state
                    // does not change through a read-only operation, stay put
                    None
                } else {
                    Some(St { start: st.start, len: st.len, bad: true })
                }
            }
        }
    }
    fn properties(&self) -> Vec<Property<Self>> {
        vec![Property::always("real buffer agrees with the reference queue", |_, s: &St| !s.bad)]
    }
}

// --------------------------------------------------------------- unmerged DFS
/// Every history over `alpha` of length <= depth from the given initial state,
/// executed on the real buffer (Vec storage, cloned per branch), nothing
/// relabelled or merged.
fn dfs_bounded(ctx: &Ctx, cap: usize, start: usize, len: usize, depth: usize, alpha: &[Act], count: &mut (u64, u64)) {
    let (data, q) = bounded_storage(cap, start, len);
    let b = Bounded::from_raw_parts(start, len, data);
    let mut path = Vec::new();
    fn rec(ctx: &Ctx, cap: usize, init: (usize, usize), b: &Bounded<Vec<u32>>, q: &VecDeque<u32>, fresh: u32, depth: usize, alpha: &[Act], path: &mut Vec<Act>, count: &mut (u64, u64)) {
        if depth == 0 {
            count.0 += 1;
            return;
        }
        for &a in alpha {
            let mut b2 = b.clone();
            let mut q2 = q.clone();
            let mut f2 = fresh;
            path.push(a);
            count.1 += 1;
            match bounded_step(&mut b2, &mut q2, cap, a, &mut f2) {
                Ok(_) => rec(ctx, cap, init, &b2, &q2, f2, depth - 1, alpha, path, count),
                Err(m) => {
                    let case = Case { sys: "bounded", kind: Kind::Vec, cap, start: init.0, len: init.1, acts: path.clone() };
                    ctx.violation(&m.key, case.to_json(), m.msg, Some(&|| case.run().err().map(|m| m.msg)));
                }
            }
            path.pop();
        }
    }
    rec(ctx, cap, (start, len), &b, &q, 500, depth, alpha, &mut path, count);
}

fn dfs_fixed(ctx: &Ctx, n: usize, first: usize, depth: usize, alpha: &[Act], count: &mut (u64, u64)) {
    let (data, q) = fixed_storage(n, first);
    let b = Fixed::from_raw_parts(first, data);
    let mut path = Vec::new();
    fn rec(ctx: &Ctx, n: usize, first: usize, b: &Fixed<Vec<u32>>, q: &VecDeque<u32>, rfirst: usize, fresh: u32, depth: usize, alpha: &[Act], path: &mut Vec<Act>, count: &mut (u64, u64)) {
        if depth == 0 {
            count.0 += 1;
            return;
        }
        for &a in alpha {
            let mut b2 = b.clone();
            let mut q2 = q.clone();
            let mut f2 = fresh;
            path.push(a);
            count.1 += 1;
            let mut rf2 = rfirst;
            match fixed_step(&mut b2, &mut q2, &mut rf2, n, a, &mut f2) {
                Ok(_) => rec(ctx, n, first, &b2, &q2, rf2, f2, depth - 1, alpha, path, count),
                Err(m) => {
                    let case = Case { sys: "fixed", kind: Kind::Vec, cap: n, start: first, len: n, acts: path.clone() };
                    ctx.violation(&m.key, case.to_json(), m.msg, Some(&|| case.run().err().map(|m| m.msg)));
                }
            }
            path.pop();
        }
    }
    rec(ctx, n, first, &b, &q, first, 500, depth, alpha, &mut path, count);
}

/// soak probe: one long deterministic history on one real buffer (no relabelling), cycling through
/// the whole alphabet; catches behaviour that depends on how long the buffer has been in use
fn soak(sys: &'static str, cap: usize, steps: usize) -> Option<(Case, Mismatch)> {
    let alpha = if sys == "bounded" { bounded_alphabet(cap) } else { fixed_alphabet(cap) };
    let mut acts = Vec::with_capacity(steps);
    for t in 0..steps {
        // pushes dominate so that the buffer keeps turning over
        acts.push(if t % 3 != 2 { Act::Push } else { alpha[(t * 7 + t / 5) % alpha.len()] });
    }
    let case = Case { sys, kind: Kind::Vec, cap, start: 0, len: if sys == "bounded" { 0 } else { cap }, acts };
    match case.run() {
        Ok(_) => None,
        Err(m) => Some((case, m)),
    }
}

/// 16-bit boundary probe: one long deterministic run on a buffer whose capacity lies around 2^16
/// (an index or length kept in 16 bits would wrap), O(1) operations at every step and a full
/// iteration / slice comparison every 8191 steps; the buffer is filled, over-filled (evicting),
/// drained and refilled so that `start` travels round the storage more than twice.
fn big_cap_run(sys: &str, cap: usize) -> Option<(String, String)> {
    let tag = |t: usize, what: &str| format!("{sys} buffer of capacity {cap}, step {t} of the 16-bit boundary run: {what}");
    let total = 5 * cap + 1000;
    if sys == "bounded" {
        let mut b = Bounded::from(vec![0u32; cap]);
        let mut q: VecDeque<u32> = VecDeque::new();
        for t in 0..total {
            // phases of cap/2 steps: push, push, push (over-fill), pop, pop, pop+push alternating ...
            let phase = (t / (cap / 2 + 1)) % 6;
            let push = matches!(phase, 0 | 1 | 2) || (phase == 5 && t % 2 == 0);
            if push {
                let v = t as u32 + 1;
                let ev = b.push(v);
                let exp = if q.len() == cap { q.pop_front() } else { None };
                q.push_back(v);
                if ev != exp {
                    return Some(("bounded.push".into(), tag(t, &format!("push returned {ev:?}, expected {exp:?}"))));
                }
            } else {
                let got = b.pop();
                let exp = q.pop_front();
                if got != exp {
                    return Some(("bounded.pop".into(), tag(t, &format!("pop returned {got:?}, expected {exp:?}"))));
                }
            }
            let n = q.len();
            if b.len() != n || b.is_full() != (n == cap) || b.is_empty() != (n == 0) || b.max_len() != cap {
                return Some(("bounded.len".into(), tag(t, &format!("len {} is_full {} is_empty {}, reference length {n}", b.len(), b.is_full(), b.is_empty()))));
            }
            for i in [0usize, 1, n / 2, n.wrapping_sub(1), n, n + 1, 65535, 65536, 65537] {
                let exp = q.get(i);
                if b.get(i) != exp {
                    return Some(("bounded.get".into(), tag(t, &format!("get({i}) = {:?}, expected {exp:?} (len {n})", b.get(i)))));
                }
            }
            if t % 8191 == 0 || t + 1 == total {
                if !b.iter().eq(q.iter()) {
                    return Some(("bounded.iter".into(), tag(t, "iter() differs from the reference queue")));
                }
                let (s1, s2) = b.slices();
                if !s1.iter().chain(s2.iter()).eq(q.iter()) {
                    return Some(("bounded.slices".into(), tag(t, "slices() concatenated differ from the reference queue")));
                }
            }
        }
    } else {
        let mut b = Fixed::from(vec![0u32; cap]);
        let mut q: VecDeque<u32> = std::iter::repeat(0).take(cap).collect();
        let mut pf = 0usize; // physical slot of the first element
        for t in 0..total {
            if t % 4099 == 4098 {
                // set_first takes an absolute slot index (modulo N): the element stored in that slot
                // becomes the first one
                let k = (t / 4099 * 7919) % (2 * cap);
                b.set_first(k);
                q.rotate_left((k % cap + cap - pf) % cap);
                pf = k % cap;
            } else {
                pf = (pf + 1) % cap;
                let v = t as u32 + 1;
                let got = b.push(v);
                let exp = q.pop_front().unwrap();
                q.push_back(v);
                if got != exp {
                    return Some(("fixed.push".into(), tag(t, &format!("push returned {got}, expected {exp} (the value pushed {cap} pushes earlier)"))));
                }
            }
            if b.len() != cap {
                return Some(("fixed.len".into(), tag(t, &format!("len() = {}", b.len()))));
            }
            for i in [0usize, 1, cap / 2, cap - 1, cap, cap + 1, 65535, 65536, 65537, 2 * cap - 1] {
                let exp = q[i % cap];
                if *b.get(i) != exp || b[i] != exp {
                    return Some(("fixed.get".into(), tag(t, &format!("get({i}) = {}, index = {}, expected {exp}", b.get(i), b[i]))));
                }
            }
            if t % 8191 == 0 || t + 1 == total {
                if !b.iter().eq(q.iter()) {
                    return Some(("fixed.iter".into(), tag(t, "iter() differs from the reference")));
                }
                let (s1, s2) = b.slices();
                if !s1.iter().chain(s2.iter()).eq(q.iter()) {
                    return Some(("fixed.slices".into(), tag(t, "slices() concatenated differ from the reference")));
                }
                if !b.iter_loop().take(cap + 3).eq(q.iter().cycle().take(cap + 3)) {
                    return Some(("fixed.iter_loop".into(), tag(t, "iter_loop() differs from the reference")));
                }
            }
        }
    }
    None
}

fn main() {
    let _final_guard = common::FinalGuard::new();
    let ctx: &'static Ctx = Ctx::leak("C06", "release");
    if let Some(v) = ctx.replay_case() {
        if v["note"] == "16-bit boundary run" {
            let _guard_scope = guard::scoped(&v.to_string());
            let sys = if v["sys"] == "fixed" { "fixed" } else { "bounded" };
            ctx.finish_replay(catch(|| big_cap_run(sys, v["cap"].as_u64().unwrap_or(65536) as usize)).unwrap_or_else(|p| Some(("panic".into(), p))).map(|e| format!("{}: {}", e.0, e.1)));
        }
        let case = Case::from_json(&v).unwrap_or_else(|| {
            eprintln!("bad C06 case {v}");
            std::process::exit(2)
        });
        let _guard_scope = guard::scoped(&v.to_string());
        ctx.finish_replay(case.run().err().map(|m| format!("{}: {}", m.key, m.msg)));
    }
    let maxcap = ctx.tier.pick(6, 12);
    ctx.rule(&format!(
        "merged: stateright BFS to fixpoint, one model instance per (buffer, storage kind, capacity 1..={maxcap}; array/Vec/Box storage for capacities <=4), initial states = every valid raw state, alphabet = push/pop/get/get_mut/Index/IndexMut(i<=cap+1 resp. 2N+1)/iter/iter_mut/iter_loop/slices/slices_mut/drain.take(k)/extend/extend from an iterator that panics after k items (caught; how far it got is not judged, only that the buffer stays a valid queue over elements it held or was handed and that every later observation agrees with it)/set_first/len.., each transition = the real operation on a buffer rebuilt with from_raw_parts over position-labelled storage between canaries vs VecDeque; a case is non-trivial and distinct by (state, action, observation fingerprint); plus scale probes: capacities 16,17,24,32,33,48,64,65,96,129,255 (thorough: also 31,63,80,100,127,128,160,192,256,257,1000), every raw state an initial state, index-taking actions at indices 0,1,cap/2,cap-2..cap+1,2cap-1.. only"
    ));
    ctx.rule("unmerged: DFS over every history (no relabelling, no merging) over {push,pop,get(i),index(i),iter,slices,drain(1),extend(2)} resp. {push,get(i),set_first(i),iter,iter_loop,slices} from every initial state of capacities <=3 (thorough <=4)");
    ctx.rule("constructors: from_raw_parts over every (cap 1..=9, start 0..=cap+1, len 0..=cap+1) accepts exactly the valid states and panics otherwise; From/from_full/FromIterator initial states");

    // --- constructors
    for cap in 1..=9usize {
        for start in 0..=cap + 1 {
            for len in 0..=cap + 1 {
                let case = Case { sys: "ctor", kind: Kind::Vec, cap, start, len, acts: vec![] };
                let _guard_scope = guard::scoped(&case.to_json().to_string());
                ctx.add_evals(1);
                if let Err(m) = ctor_case(cap, start, len) {
                    ctx.violation(&m.key, case.to_json(), m.msg, Some(&|| case.run().err().map(|m| m.msg)));
                } else {
                    ctx.observe(common::fnv_str(&format!("ctor{cap},{start},{len}")));
                }
            }
        }
    }

    // --- merged models
    let mut instances = Vec::new();
    for sys in ["bounded", "fixed"] {
        for cap in 1..=maxcap {
            instances.push((sys, Kind::Window, cap));
            if cap <= 4 {
                for k in [Kind::Vec, Kind::Boxed, Kind::Array] {
                    instances.push((sys, k, cap));
                }
            }
        }
    }
    // scale probes: a few much larger capacities (powers of two and their neighbours), every raw
    // state still an initial state, index-taking actions at structured indices only
    let big: &[usize] = if ctx.thorough() { &[16, 17, 24, 31, 32, 33, 48, 63, 64, 65, 80, 96, 100, 127, 128, 129, 160, 192, 255, 256, 257, 1000] } else { &[16, 17, 24, 32, 33, 48, 64, 65, 96, 129, 255] };
    for sys in ["bounded", "fixed"] {
        for &cap in big {
            instances.push((sys, Kind::Window, cap));
        }
    }
    ctx.set("scale_probe_capacities", json!(big));
    static TRANSITIONS: AtomicU64 = AtomicU64::new(0);
    let transitions = &TRANSITIONS;
    let results: Vec<(usize, usize, usize)> = instances
        .par_iter()
        .map(|&(sys, kind, cap)| {
            let m = RingModel { ctx, sys, kind, cap, reduced: cap > 12, transitions };
            let c = m.checker().threads(1).spawn_bfs().join();
            (c.unique_state_count(), c.state_count(), c.max_depth())
        })
        .collect();
    let uniq: usize = results.iter().map(|r| r.0).sum();
    let gen: usize = results.iter().map(|r| r.1).sum();
    ctx.add_states(uniq as u64);
    ctx.add_transitions(transitions.load(Relaxed));
    ctx.add_evals(transitions.load(Relaxed));
    ctx.set("merged_model_instances", json!(instances.len()));
    ctx.set("merged_unique_states", json!(uniq));
    ctx.set("merged_generated_states", json!(gen));
    ctx.set("merged_max_depth", json!(results.iter().map(|r| r.2).max().unwrap_or(0)));
    ctx.set("capacities", json!(format!("1..={maxcap}")));
    ctx.sample(json!({"sys":"bounded","kind":"window","cap":3,"start":2,"len":2,"actions":["push"],"meaning":"one merged transition: real push on raw state (2,2) of capacity 3"}));

    // --- unmerged DFS
    let dcap = ctx.tier.pick(3, 4);
    let ddepth = ctx.tier.pick(5, 6);
    let mut jobs = Vec::new();
    for cap in 1..=dcap {
        for s in 0..cap {
            for l in 0..=cap {
                jobs.push(("bounded", cap, s, l));
            }
            jobs.push(("fixed", cap, s, cap));
        }
    }
    let dfs: Vec<(u64, u64)> = jobs
        .par_iter()
        .map(|&(sys, cap, s, l)| {
            let mut count = (0u64, 0u64);
            let _guard_scope = guard::scoped(&json!({"sys":sys,"kind":"vec","cap":cap,"start":s,"len":l,"actions":[],"note":"unmerged DFS root"}).to_string());
            guard::set_hang_secs(300);
            if sys == "bounded" {
                let mut alpha = vec![Act::Push, Act::Pop, Act::Iter, Act::Slices, Act::Drain(1), Act::Extend(2)];
                for i in 0..cap as u16 {
                    alpha.push(Act::Get(i));
                    alpha.push(Act::Index(i));
                }
                dfs_bounded(ctx, cap, s, l, ddepth, &alpha, &mut count);
            } else {
                let mut alpha = vec![Act::Push, Act::Iter, Act::IterLoop, Act::Slices];
                for i in 0..=cap as u16 {
                    alpha.push(Act::Get(i));
                    alpha.push(Act::SetFirst(i));
                }
                dfs_fixed(ctx, cap, s, ddepth, &alpha, &mut count);
            }
            guard::leave();
            count
        })
        .collect();
    let hist: u64 = dfs.iter().map(|c| c.0).sum();
    let steps: u64 = dfs.iter().map(|c| c.1).sum();
    ctx.add_transitions(steps);
    ctx.add_evals(steps);
    ctx.set("unmerged_histories", json!(hist));
    ctx.set("unmerged_steps", json!(steps));
    ctx.set("unmerged_depth", json!(ddepth));
    // soak probes
    let soak_steps = ctx.tier.pick(20_000, 200_000);
    for sys in ["bounded", "fixed"] {
        for cap in [1usize, 3, 4, 7, 48, 64] {
            let _guard_scope = guard::scoped(&json!({"sys":sys,"kind":"vec","cap":cap,"note":"soak"}).to_string());
            ctx.add_evals(soak_steps as u64);
            ctx.add_transitions(soak_steps as u64);
            if let Some((case, m)) = soak(sys, cap, soak_steps) {
                // keep the artefact small: the failing history is deterministic in (sys, cap, steps)
                let mut cj = case.to_json();
                cj["actions"] = json!(case.acts.iter().map(|a| a.name()).collect::<Vec<_>>());
                ctx.violation(&m.key, cj, format!("soak run of {soak_steps} operations on a {sys} buffer of capacity {cap}: {}", m.msg), None);
            }
        }
    }
    // 16-bit boundary probes
    let big_caps: &[usize] = if ctx.thorough() { &[512, 1024, 2048, 4096, 44100, 48000, 65535, 65536, 65537, 131073] } else { &[512, 1024, 2048, 4096, 44100, 48000, 65535, 65536, 65537] };
    let jobs: Vec<(&str, usize)> = ["bounded", "fixed"].into_iter().flat_map(|s| big_caps.iter().map(move |&c| (s, c))).collect();
    jobs.par_iter().for_each(|&(sys, cap)| {
        let case = json!({"sys":sys,"kind":"vec","cap":cap,"note":"16-bit boundary run"});
        let _guard_scope = guard::scoped(&case.to_string());
        ctx.add_evals((5 * cap + 1000) as u64);
        match catch(|| big_cap_run(sys, cap)) {
            Ok(None) => ctx.observe(common::fnv_str(&format!("big{sys}{cap}"))),
            Ok(Some((k, m))) => ctx.violation(&k, case, m, Some(&|| big_cap_run(sys, cap).map(|e| e.1))),
            Err(p) => ctx.violation(&format!("{sys}.panic"), case, format!("{sys} buffer of capacity {cap}, 16-bit boundary run: panicked: {p}"), None),
        }
    });
    ctx.rule("16-bit boundary and audio-typical capacities: 512, 1024, 2048, 4096, 44100, 48000, 65535, 65536, 65537 (thorough: also 131073), one deterministic run of 5 x capacity + 1000 operations each (fill, over-fill with eviction, drain, alternate; set_first rotations for the fixed buffer): every push / pop return value, len / is_full / is_empty, get and index at 0, 1, len/2, len-1, len, len+1, 65535, 65536, 65537, and every 8191 steps iter / slices / iter_loop against a VecDeque");
    ctx.rule(&format!("soak probes: one deterministic history of {soak_steps} operations (pushes interleaved with the whole alphabet) per buffer kind and capacity in 1,3,4,7,64 on a single real buffer, same reference queue (single executions, labelled)"));
    ctx.set("exhaustive", json!(true));
    ctx.set("exhaustive_scope", json!(format!("every raw state x every action for capacities 1..={maxcap}; capacities above are not explored")));
    ctx.sample(json!({"sys":"bounded","kind":"vec","cap":2,"start":1,"len":1,"actions":["push","push","get:0","pop","iter"],"meaning":"one unmerged history"}));
    ctx.assume("element values are never inspected by the ring buffers (data independence), so relabelling live elements by queue position between merged transitions loses no behaviour; the unmerged DFS does not rely on this");
    ctx.assume("rustc/LLVM, std::collections::VecDeque as reference queue, stateright's BFS");
    ctx.finish();
}
