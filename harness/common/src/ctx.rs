//! Run context: CLI parsing, counters, violation / known-finding handling,
//! replay artefacts and the evidence (part) writer.
//!
//! Exit codes of every explorer binary:
//!   0 held on everything explored (known findings printed)
//!   1 `VIOLATION property=<id> replay=<path>` printed
//!   2 machinery failure (self-test failed, non-deterministic replay, bad CLI)
//!   3 the subject crashed (signal) — reported by `guard`, decided by the driver
//!   4 the subject hung — reported by `guard`, decided by the driver

use crate::guard;
use serde_json::{json, Map, Value};
use std::collections::{BTreeMap, HashSet};
use std::path::PathBuf;
use std::sync::atomic::{AtomicU64, Ordering::Relaxed};
use std::sync::Mutex;
use std::time::Instant;

#[derive(Clone, Copy, PartialEq, Eq, Debug)]
pub enum Tier {
    Quick,
    Thorough,
}

impl Tier {
    pub fn name(self) -> &'static str {
        match self {
            Tier::Quick => "quick",
            Tier::Thorough => "thorough",
        }
    }
    pub fn thorough(self) -> bool {
        self == Tier::Thorough
    }
    /// pick by tier
    pub fn pick<T>(self, quick: T, thorough: T) -> T {
        match self {
            Tier::Quick => quick,
            Tier::Thorough => thorough,
        }
    }
}

const MAX_DISTINCT: usize = 1 << 21;
const MAX_REPLAY_FILES: usize = 8;
const MAX_SAMPLES: usize = 12;

struct Violation {
    key: String,
    msg: String,
    path: Option<PathBuf>,
}

pub struct Ctx {
    pub id: String,
    pub part: String,
    pub tier: Tier,
    pub seed: i64,
    pub replay: Option<PathBuf>,
    pub root: PathBuf,
    start: Instant,
    evaluations: AtomicU64,
    distinct: Mutex<HashSet<u64>>,
    distinct_counted: AtomicU64,
    states: AtomicU64,
    transitions: AtomicU64,
    samples: Mutex<Vec<Value>>,
    violations: Mutex<Vec<Violation>>,
    violation_count: AtomicU64,
    known: Vec<(String, String)>, // (key, text) of `finding:` lines for this property
    known_hits: Mutex<BTreeMap<String, (u64, String)>>,
    rules: Mutex<Vec<String>>,
    assumptions: Mutex<Vec<String>>,
    extra: Mutex<Map<String, Value>>,
    _fin: FinalGuard,
}

static LAST_PANIC_CASE: Mutex<Option<String>> = Mutex::new(None);

/// Safety net for a panic of the code under test that no `catch` judged: when the main thread
/// unwinds out of `main` (directly, or because a worker's panic was resumed on it), report the case
/// that was running as `CRASH-CASE PANIC <case>` and exit 3, so that the driver replays it in fresh
/// processes and calls it a violation only if it reproduces twice (a harness bug that does not
/// reproduce from the case alone still ends as a machinery failure). `Ctx` carries one; explorers
/// that leak their `Ctx` create one at the top of `main`.
pub struct FinalGuard(());
impl FinalGuard {
    pub fn new() -> FinalGuard {
        FinalGuard(())
    }
}
impl Default for FinalGuard {
    fn default() -> Self {
        FinalGuard::new()
    }
}
impl Drop for FinalGuard {
    fn drop(&mut self) {
        if std::thread::panicking() {
            let case = LAST_PANIC_CASE.lock().ok().and_then(|l| l.clone());
            if let Some(c) = case {
                use std::io::Write;
                println!("\nCRASH-CASE PANIC {c}");
                let _ = std::io::stdout().flush();
                std::process::exit(3);
            }
        }
    }
}

fn usage(bin: &str) -> ! {
    eprintln!("usage: {bin} quick|thorough [--part NAME] [--replay FILE]");
    std::process::exit(2)
}

impl Ctx {
    /// Parse the command line, silence the panic hook, install the crash/hang
    /// guard and load the known findings of `id`.
    pub fn new(id: &str, default_part: &str) -> Ctx {
        let args: Vec<String> = std::env::args().collect();
        let bin = args[0].clone();
        let mut tier = match std::env::var("VERIF_TIER").ok().as_deref() {
            Some("thorough") => Tier::Thorough,
            _ => Tier::Quick,
        };
        let mut part = default_part.to_string();
        let mut replay = None;
        let mut i = 1;
        while i < args.len() {
            match args[i].as_str() {
                "quick" => tier = Tier::Quick,
                "thorough" => tier = Tier::Thorough,
                "--part" => {
                    i += 1;
                    part = args.get(i).cloned().unwrap_or_else(|| usage(&bin));
                }
                "--replay" => {
                    i += 1;
                    replay = Some(PathBuf::from(args.get(i).cloned().unwrap_or_else(|| usage(&bin))));
                }
                _ => usage(&bin),
            }
            i += 1;
        }
        let seed = std::env::var("VERIF_SEED").ok().and_then(|s| s.parse().ok()).unwrap_or(0);
        let root = PathBuf::from(std::env::var("VERIF_ROOT").unwrap_or_else(|_| "/verif".into()));
        // Every panic records the case its thread had announced (most panics are caught and judged
        // where they happen; this is for the one that is not, see `FinalGuard`). The message itself
        // is printed only with VERIF_PANIC_VERBOSE.
        let verbose = std::env::var("VERIF_PANIC_VERBOSE").is_ok();
        let prev = std::panic::take_hook();
        std::panic::set_hook(Box::new(move |info| {
            if let Some(c) = guard::current_case() {
                if let Ok(mut l) = LAST_PANIC_CASE.lock() {
                    *l = Some(c);
                }
            }
            if verbose {
                prev(info);
            }
        }));
        guard::install();
        if let Some(n) = std::env::var("VERIF_HANG_SECS").ok().and_then(|s| s.parse().ok()) {
            guard::set_hang_secs(n);
        }
        let known = load_known(&root, id);
        Ctx {
            id: id.to_string(),
            part,
            tier,
            seed,
            replay,
            root,
            start: Instant::now(),
            evaluations: AtomicU64::new(0),
            distinct: Mutex::new(HashSet::new()),
            distinct_counted: AtomicU64::new(0),
            states: AtomicU64::new(0),
            transitions: AtomicU64::new(0),
            samples: Mutex::new(Vec::new()),
            violations: Mutex::new(Vec::new()),
            violation_count: AtomicU64::new(0),
            known,
            known_hits: Mutex::new(BTreeMap::new()),
            rules: Mutex::new(Vec::new()),
            assumptions: Mutex::new(Vec::new()),
            extra: Mutex::new(Map::new()),
            _fin: FinalGuard::new(),
        }
    }

    /// A context that lives for the whole process (stateright models must be 'static).
    pub fn leak(id: &str, default_part: &str) -> &'static Ctx {
        Box::leak(Box::new(Ctx::new(id, default_part)))
    }

    pub fn thorough(&self) -> bool {
        self.tier.thorough()
    }

    /// If `--replay FILE` was given: the `case` member of that artefact.
    pub fn replay_case(&self) -> Option<Value> {
        let p = self.replay.as_ref()?;
        let txt = std::fs::read_to_string(p).unwrap_or_else(|e| {
            eprintln!("cannot read replay file {}: {e}", p.display());
            std::process::exit(2)
        });
        let v: Value = serde_json::from_str(&txt).unwrap_or_else(|e| {
            eprintln!("replay file {} is not JSON: {e}", p.display());
            std::process::exit(2)
        });
        Some(v.get("case").cloned().unwrap_or(v))
    }

    /// Finish a `--replay` run: `outcome` is `Some(msg)` when the violation
    /// reproduced.
    pub fn finish_replay(&self, outcome: Option<String>) -> ! {
        let p = self.replay.as_ref().map(|p| p.display().to_string()).unwrap_or_default();
        match outcome {
            Some(msg) => {
                println!("replay reproduces: {msg}");
                println!("VIOLATION property={} replay={}", self.id, p);
                std::process::exit(1)
            }
            None => {
                println!("replay: property holds on this case");
                std::process::exit(0)
            }
        }
    }

    // ---- counters ---------------------------------------------------------
    pub fn add_evals(&self, n: u64) {
        self.evaluations.fetch_add(n, Relaxed);
    }
    pub fn add_states(&self, n: u64) {
        self.states.fetch_add(n, Relaxed);
    }
    pub fn add_transitions(&self, n: u64) {
        self.transitions.fetch_add(n, Relaxed);
    }
    /// A non-trivial case, identified by a fingerprint of (case class,
    /// observation). Distinct fingerprints are counted (set bounded at 2^21;
    /// beyond that nothing more is counted, i.e. the number is a lower bound).
    pub fn observe(&self, fingerprint: u64) {
        let mut d = self.distinct.lock().unwrap();
        if d.len() < MAX_DISTINCT {
            d.insert(fingerprint);
        }
    }
    pub fn observe_many(&self, fps: impl IntoIterator<Item = u64>) {
        let mut d = self.distinct.lock().unwrap();
        for f in fps {
            if d.len() >= MAX_DISTINCT {
                break;
            }
            d.insert(f);
        }
    }
    /// Distinct non-trivial cases counted by the caller by other exact means
    /// (e.g. the number of distinct outputs of a monotone sweep).
    pub fn add_distinct_counted(&self, n: u64) {
        self.distinct_counted.fetch_add(n, Relaxed);
    }
    pub fn sample(&self, v: Value) {
        let mut s = self.samples.lock().unwrap();
        if s.len() < MAX_SAMPLES {
            s.push(v);
        }
    }
    pub fn want_sample(&self) -> bool {
        self.samples.lock().unwrap().len() < MAX_SAMPLES
    }
    pub fn rule(&self, s: &str) {
        let mut r = self.rules.lock().unwrap();
        if !r.iter().any(|x| x == s) {
            r.push(s.to_string());
        }
    }
    pub fn assume(&self, s: &str) {
        let mut r = self.assumptions.lock().unwrap();
        if !r.iter().any(|x| x == s) {
            r.push(s.to_string());
        }
    }
    pub fn set(&self, key: &str, v: Value) {
        self.extra.lock().unwrap().insert(key.to_string(), v);
    }
    /// add to a numeric extra key
    pub fn bump(&self, key: &str, n: u64) {
        let mut e = self.extra.lock().unwrap();
        let cur = e.get(key).and_then(|v| v.as_u64()).unwrap_or(0);
        e.insert(key.to_string(), json!(cur + n));
    }

    // ---- violations -------------------------------------------------------
    pub fn is_known(&self, key: &str) -> Option<&str> {
        self.known.iter().find(|(k, _)| k == key).map(|(_, t)| t.as_str())
    }

    /// Report a disagreement. `key` is a structured identifier of the failing
    /// call site + input class, computed by the harness; if it equals the key
    /// of a `finding:` line in known_findings.txt the disagreement is counted
    /// as a known finding, otherwise it is a violation. `recheck` re-executes
    /// the case on fresh objects without the explorer; it is called twice and
    /// must reproduce (`Some`) both times with the same message, otherwise the
    /// harness is non-deterministic and the run ends with exit 2.
    pub fn violation(&self, key: &str, case: Value, msg: String, recheck: Option<&dyn Fn() -> Option<String>>) {
        if let Some(text) = self.is_known(key) {
            let mut k = self.known_hits.lock().unwrap();
            let e = k.entry(key.to_string()).or_insert((0, text.to_string()));
            e.0 += 1;
            return;
        }
        let n = self.violation_count.fetch_add(1, Relaxed);
        if n as usize >= MAX_REPLAY_FILES {
            return;
        }
        if let Some(r) = recheck {
            let a = crate::catch(|| r()).unwrap_or_else(|p| Some(format!("panic: {p}")));
            let b = crate::catch(|| r()).unwrap_or_else(|p| Some(format!("panic: {p}")));
            if a.is_none() || a != b {
                eprintln!(
                    "MACHINERY: non-deterministic harness for {} key={key}: explorer said {msg:?}, replays said {a:?} / {b:?}; case={case}",
                    self.id
                );
                std::process::exit(2);
            }
        }
        let dir = out_root(&self.root).join("replays").join(&self.id);
        let _ = std::fs::create_dir_all(&dir);
        let path = dir.join(format!("{}-{}-{}.json", self.tier.name(), self.part, n));
        let art = json!({
            "property": self.id, "part": self.part, "tier": self.tier.name(),
            "bin": std::env::args().next().unwrap_or_default(),
            "key": key, "message": msg, "case": case,
        });
        let _ = std::fs::write(&path, serde_json::to_string_pretty(&art).unwrap());
        eprintln!("violation {} key={key}: {msg}", self.id);
        self.violations.lock().unwrap().push(Violation { key: key.to_string(), msg, path: Some(path) });
    }

    pub fn violations_so_far(&self) -> u64 {
        self.violation_count.load(Relaxed)
    }

    pub fn machinery_failure(&self, msg: &str) -> ! {
        eprintln!("MACHINERY: {}: {msg}", self.id);
        println!("MACHINERY-FAILURE property={} {msg}", self.id);
        std::process::exit(2)
    }

    /// Write the evidence part file and exit with the verdict.
    pub fn finish(&self) -> ! {
        guard::leave();
        let wall = self.start.elapsed().as_secs_f64();
        let viol = self.violation_count.load(Relaxed);
        let distinct = self.distinct.lock().unwrap().len() as u64 + self.distinct_counted.load(Relaxed);
        let known_hits = self.known_hits.lock().unwrap();
        let mut cov = Map::new();
        cov.insert("evaluations".into(), json!(self.evaluations.load(Relaxed)));
        cov.insert("distinct_nontrivial".into(), json!(distinct));
        cov.insert("rule".into(), json!(self.rules.lock().unwrap().join(" | ")));
        cov.insert("samples".into(), Value::Array(self.samples.lock().unwrap().clone()));
        let st = self.states.load(Relaxed);
        let tr = self.transitions.load(Relaxed);
        if st > 0 || tr > 0 {
            cov.insert("states".into(), json!(st));
            cov.insert("transitions".into(), json!(tr));
            // exploration runs on the implementation itself: every transition
            // is an implementation step compared with the reference model
            cov.insert("traces_validated_against_impl".into(), json!(tr));
        }
        for (k, v) in self.extra.lock().unwrap().iter() {
            cov.insert(k.clone(), v.clone());
        }
        let kf: Vec<Value> = known_hits
            .iter()
            .map(|(k, (n, t))| json!({"key": k, "hits": n, "text": t}))
            .collect();
        cov.insert("known_findings_hit".into(), Value::Array(kf));
        let ev = json!({
            "property_id": self.id,
            "part": self.part,
            "tier": self.tier.name(),
            "seed": self.seed,
            "level": "model_checking",
            "coverage": Value::Object(cov),
            "assumptions": self.assumptions.lock().unwrap().clone(),
            "wall_s": wall,
            "violations": viol,
        });
        let dir = out_root(&self.root).join("evidence").join("parts");
        let _ = std::fs::create_dir_all(&dir);
        let path = dir.join(format!("{}.{}.json", self.id, self.part));
        if let Err(e) = std::fs::write(&path, serde_json::to_string_pretty(&ev).unwrap()) {
            eprintln!("MACHINERY: cannot write {}: {e}", path.display());
            std::process::exit(2);
        }
        for (k, (n, t)) in known_hits.iter() {
            println!("KNOWN-FINDING: property={} key={k} hits={n} {t}", self.id);
        }
        println!(
            "{} part={} tier={} evaluations={} distinct_nontrivial={} states={} transitions={} violations={} wall={:.1}s",
            self.id,
            self.part,
            self.tier.name(),
            self.evaluations.load(Relaxed),
            distinct,
            st,
            tr,
            viol,
            wall
        );
        let v = self.violations.lock().unwrap();
        if viol > 0 {
            for x in v.iter() {
                println!("  key={} {}", x.key, x.msg);
                println!(
                    "VIOLATION property={} replay={}",
                    self.id,
                    x.path.as_ref().map(|p| p.display().to_string()).unwrap_or_default()
                );
            }
            std::process::exit(1);
        }
        std::process::exit(0)
    }
}

/// `finding: property=<id> key=<key> <text>` lines of known_findings.txt.
/// Where evidence and replay artefacts go: VERIF_OUT if set (used when the checks are run against a
/// deliberately broken tree, so that the committed evidence of the real tree is not overwritten),
/// else the verification root. Known findings are always read from the root.
fn out_root(root: &std::path::Path) -> PathBuf {
    std::env::var("VERIF_OUT").map(PathBuf::from).unwrap_or_else(|_| root.to_path_buf())
}

fn load_known(root: &std::path::Path, id: &str) -> Vec<(String, String)> {
    let mut out = Vec::new();
    let Ok(txt) = std::fs::read_to_string(root.join("known_findings.txt")) else {
        return out;
    };
    for line in txt.lines() {
        let line = line.trim();
        let Some(rest) = line.strip_prefix("finding:") else { continue };
        let mut it = rest.trim().splitn(3, ' ');
        let p = it.next().unwrap_or("");
        let k = it.next().unwrap_or("");
        let t = it.next().unwrap_or("");
        if p == format!("property={id}") {
            if let Some(k) = k.strip_prefix("key=") {
                out.push((k.to_string(), t.to_string()));
            }
        }
    }
    out
}
