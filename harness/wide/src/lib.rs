//! Shared pieces of the width-generic explorers (built at opt-level 0).

use dasp_sample::{Sample, I24, I48, U24, U48};
use std::fmt::Debug;

/// position-coded sample: distinct for distinct i < 200 (24-bit formats repeat after 8000 / 16000 positions); plus boundary values
pub trait Mk: Sample + PartialEq + Debug + 'static {
    const NAME: &'static str;
    fn mk(i: usize) -> Self;
    /// a small positive offset in the Signed companion's units (safe to add to mk(i))
    fn small_offset() -> Self::Signed;
    fn zero_offset() -> Self::Signed;
    fn boundary() -> Vec<Self>;
    fn gain(g: f64) -> Self::Float;
}
macro_rules! mk {
    ($T:ty, $name:expr, |$i:ident| $e:expr, $off:expr, $zero:expr, [$($b:expr),*], |$g:ident| $ge:expr) => {
        impl Mk for $T {
            const NAME: &'static str = $name;
            fn mk($i: usize) -> Self {
                $e
            }
            fn small_offset() -> Self::Signed {
                $off
            }
            fn zero_offset() -> Self::Signed {
                $zero
            }
            fn boundary() -> Vec<Self> {
                vec![$($b),*]
            }
            fn gain($g: f64) -> Self::Float {
                $ge
            }
        }
    };
}
mk!(i8, "i8", |i| (i as i32 - 100) as i8, 3, 0, [0, i8::MIN, i8::MAX, -127, 126, 1, -1, 64], |g| g as f32);
mk!(u8, "u8", |i| i as u8, 3, 0, [128, 0, 255, 1, 254, 129, 127, 192], |g| g as f32);
mk!(i16, "i16", |i| (i as i32 * 7 - 300) as i16, 3, 0, [0, i16::MIN, i16::MAX, -32767, 32766, 1, -1, 16384], |g| g as f32);
mk!(u16, "u16", |i| (i * 11) as u16, 3, 0, [32768, 0, 65535, 1, 65534, 32769, 32767, 49152], |g| g as f32);
mk!(I24, "I24", |i| I24::new((i % 8000) as i32 * 1001 - 5000).unwrap(), I24::new(3).unwrap(), I24::new(0).unwrap(),
    [I24::new(0).unwrap(), dasp_sample::types::i24::MIN, dasp_sample::types::i24::MAX, I24::new(-8_388_607).unwrap(), I24::new(8_388_606).unwrap(), I24::new(1).unwrap(), I24::new(-1).unwrap(), I24::new(4_194_304).unwrap()], |g| g as f32);
mk!(U24, "U24", |i| U24::new((i % 16000) as i32 * 1003).unwrap(), 3 << 8, 0,
    [dasp_sample::types::u24::EQUILIBRIUM, dasp_sample::types::u24::MIN, dasp_sample::types::u24::MAX, U24::new(1).unwrap(), U24::new(16_777_214).unwrap(), U24::new(8_388_609).unwrap(), U24::new(8_388_607).unwrap(), U24::new(12_582_912).unwrap()], |g| g as f32);
mk!(i32, "i32", |i| (i as i32).wrapping_mul(100_003).wrapping_sub(77), 3, 0, [0, i32::MIN, i32::MAX, i32::MIN + 1, i32::MAX - 1, 1, -1, 1 << 30], |g| g as f32);
mk!(u32, "u32", |i| (i as u32).wrapping_mul(100_019), 3, 0, [1 << 31, 0, u32::MAX, 1, u32::MAX - 1, (1 << 31) + 1, (1 << 31) - 1, 3 << 30], |g| g as f32);
mk!(I48, "I48", |i| I48::new(i as i64 * 1_000_000_007 - 9).unwrap(), I48::new(3).unwrap(), I48::new(0).unwrap(),
    [I48::new(0).unwrap(), dasp_sample::types::i48::MIN, dasp_sample::types::i48::MAX, I48::new(-140_737_488_355_327).unwrap(), I48::new(140_737_488_355_326).unwrap(), I48::new(1).unwrap(), I48::new(-1).unwrap(), I48::new(1 << 46).unwrap()], |g| g);
mk!(U48, "U48", |i| U48::new(i as i64 * 1_000_000_009).unwrap(), 3 << 16, 0,
    [dasp_sample::types::u48::EQUILIBRIUM, dasp_sample::types::u48::MIN, dasp_sample::types::u48::MAX, U48::new(1).unwrap(), U48::new(281_474_976_710_654).unwrap(), U48::new((1 << 47) + 1).unwrap(), U48::new((1 << 47) - 1).unwrap(), U48::new(3 << 46).unwrap()], |g| g);
mk!(i64, "i64", |i| i as i64 * 1_000_000_000_039 - 3, 3, 0, [0, i64::MIN, i64::MAX, i64::MIN + 1, i64::MAX - 1, 1, -1, 1 << 62], |g| g);
mk!(u64, "u64", |i| i as u64 * 1_000_000_000_061, 3, 0, [1 << 63, 0, u64::MAX, 1, u64::MAX - 1, (1 << 63) + 1, (1 << 63) - 1, 3 << 62], |g| g);
mk!(f32, "f32", |i| i as f32 * 0.125 - 3.0, 0.5, 0.0, [0.0, -1.0, 1.0, -0.999, 0.999, 1e-6, -1e-6, 0.5], |g| g as f32);
mk!(f64, "f64", |i| i as f64 * 0.0625 - 2.0, 0.5, 0.0, [0.0, -1.0, 1.0, -0.999, 0.999, 1e-12, -1e-12, 0.5], |g| g);
