fn main() { checks::progs_main::main_for("C04") }
