//! Reference arithmetic for the sample formats, written independently of
//! `dasp_sample/src/conv.rs`: amplitudes in `i128`, power-of-two rescale with
//! floor, round-to-nearest-even done with integer operations, exact truncation
//! of dyadic floats. No sign-split branches, no format-specific shifts.

#[derive(Clone, Copy, PartialEq, Eq, Debug, Hash, PartialOrd, Ord)]
pub enum Fmt {
    I8,
    I16,
    I24,
    I32,
    I48,
    I64,
    U8,
    U16,
    U24,
    U32,
    U48,
    U64,
    F32,
    F64,
}

pub const INT_FMTS: [Fmt; 12] = [
    Fmt::I8,
    Fmt::I16,
    Fmt::I24,
    Fmt::I32,
    Fmt::I48,
    Fmt::I64,
    Fmt::U8,
    Fmt::U16,
    Fmt::U24,
    Fmt::U32,
    Fmt::U48,
    Fmt::U64,
];

impl Fmt {
    pub fn name(self) -> &'static str {
        match self {
            Fmt::I8 => "i8",
            Fmt::I16 => "i16",
            Fmt::I24 => "I24",
            Fmt::I32 => "i32",
            Fmt::I48 => "I48",
            Fmt::I64 => "i64",
            Fmt::U8 => "u8",
            Fmt::U16 => "u16",
            Fmt::U24 => "U24",
            Fmt::U32 => "u32",
            Fmt::U48 => "U48",
            Fmt::U64 => "u64",
            Fmt::F32 => "f32",
            Fmt::F64 => "f64",
        }
    }
    pub fn is_float(self) -> bool {
        matches!(self, Fmt::F32 | Fmt::F64)
    }
    pub fn bits(self) -> u32 {
        match self {
            Fmt::I8 | Fmt::U8 => 8,
            Fmt::I16 | Fmt::U16 => 16,
            Fmt::I24 | Fmt::U24 => 24,
            Fmt::I32 | Fmt::U32 | Fmt::F32 => 32,
            Fmt::I48 | Fmt::U48 => 48,
            Fmt::I64 | Fmt::U64 | Fmt::F64 => 64,
        }
    }
    pub fn signed(self) -> bool {
        !matches!(self, Fmt::U8 | Fmt::U16 | Fmt::U24 | Fmt::U32 | Fmt::U48 | Fmt::U64)
    }
    /// value of the equilibrium (0 for signed formats, 2^(bits-1) otherwise)
    pub fn half(self) -> i128 {
        if self.signed() {
            0
        } else {
            1i128 << (self.bits() - 1)
        }
    }
    pub fn min(self) -> i128 {
        if self.signed() {
            -(1i128 << (self.bits() - 1))
        } else {
            0
        }
    }
    pub fn max(self) -> i128 {
        if self.signed() {
            (1i128 << (self.bits() - 1)) - 1
        } else {
            (1i128 << self.bits()) - 1
        }
    }
    /// The `Sample::Signed` companion, as tabulated in dasp_sample's docs
    /// (note: U24 -> i32 and U48 -> i64, not I24/I48).
    pub fn signed_companion(self) -> Fmt {
        match self {
            Fmt::I8 | Fmt::U8 => Fmt::I8,
            Fmt::I16 | Fmt::U16 => Fmt::I16,
            Fmt::I24 => Fmt::I24,
            Fmt::I32 | Fmt::U24 | Fmt::U32 => Fmt::I32,
            Fmt::I48 => Fmt::I48,
            Fmt::I64 | Fmt::U48 | Fmt::U64 => Fmt::I64,
            Fmt::F32 => Fmt::F32,
            Fmt::F64 => Fmt::F64,
        }
    }
    /// The `Sample::Float` companion.
    pub fn float_companion(self) -> Fmt {
        if self.bits() <= 32 {
            Fmt::F32
        } else {
            Fmt::F64
        }
    }
}

/// signed amplitude of an integer sample
#[inline]
pub fn amp(f: Fmt, v: i128) -> i128 {
    v - f.half()
}
#[inline]
pub fn from_amp(f: Fmt, a: i128) -> i128 {
    a + f.half()
}
#[inline]
pub fn in_range(f: Fmt, v: i128) -> bool {
    v >= f.min() && v <= f.max()
}

/// integer -> integer: amplitude * 2^(tb - sb), floor
#[inline]
pub fn conv_int(src: Fmt, dst: Fmt, v: i128) -> i128 {
    let a = amp(src, v);
    let d = dst.bits() as i32 - src.bits() as i32;
    let r = if d >= 0 { a << d } else { a >> (-d) }; // >> on i128 is floor division
    from_amp(dst, r)
}

/// wrap a mathematical integer into the two's-complement-like range of `bits`
/// starting at `min`
#[inline]
pub fn wrap(min: i128, bits: u32, v: i128) -> i128 {
    let total = 1i128 << bits;
    (v - min).rem_euclid(total) + min
}

fn pow2_f64(e: i32) -> f64 {
    // exact power of two, normal or subnormal
    if e >= -1022 {
        f64::from_bits(((e + 1023) as u64) << 52)
    } else {
        f64::from_bits(1u64 << (e + 1074))
    }
}

/// Round the integer `a` to `p` significant bits (nearest, ties to even);
/// returns (rounded magnitude m, shift k) with |result| = m * 2^k.
fn rne_int(mag: u128, p: u32) -> (u128, u32) {
    if mag == 0 {
        return (0, 0);
    }
    let len = 128 - mag.leading_zeros();
    if len <= p {
        return (mag, 0);
    }
    let k = len - p;
    let q = mag >> k;
    let rem = mag & ((1u128 << k) - 1);
    let half = 1u128 << (k - 1);
    let up = rem > half || (rem == half && (q & 1) == 1);
    (q + up as u128, k)
}

/// integer sample -> f64: amplitude / 2^(bits-1), correctly rounded (RNE)
pub fn int_to_f64(src: Fmt, v: i128) -> f64 {
    let a = amp(src, v);
    let (m, k) = rne_int(a.unsigned_abs(), 53);
    // m <= 2^53 so the cast is exact; scaling by a power of two is exact
    let r = (m as u64 as f64) * pow2_f64(k as i32 - (src.bits() as i32 - 1));
    if a < 0 {
        -r
    } else {
        r
    }
}

/// integer sample -> f32: amplitude / 2^(bits-1), correctly rounded (RNE)
pub fn int_to_f32(src: Fmt, v: i128) -> f32 {
    let a = amp(src, v);
    let (m, k) = rne_int(a.unsigned_abs(), 24);
    // m <= 2^24: exact in f64 and in f32; result magnitude <= 1, >= 2^-63: normal in f32
    let r = (m as u64 as f64) * pow2_f64(k as i32 - (src.bits() as i32 - 1));
    let r = r as f32; // exact: at most 24 significant bits, normal range
    if a < 0 {
        -r
    } else {
        r
    }
}

/// Decompose a finite f64 into (negative, integer mantissa, exponent) with
/// value = (-1)^neg * mant * 2^exp.
pub fn decompose(x: f64) -> (bool, u64, i32) {
    let b = x.to_bits();
    let neg = (b >> 63) != 0;
    let e = ((b >> 52) & 0x7ff) as i32;
    let f = b & ((1u64 << 52) - 1);
    if e == 0 {
        (neg, f, -1074)
    } else {
        (neg, f | (1u64 << 52), e - 1075)
    }
}

/// float in [-1, 1) -> integer sample: trunc(x * 2^(bits-1)) toward zero,
/// re-offset for unsigned. `None` when x is not finite or the result is out
/// of range (i.e. x outside the documented domain).
pub fn f64_to_int(dst: Fmt, x: f64) -> Option<i128> {
    if !x.is_finite() {
        return None;
    }
    let (neg, m, e) = decompose(x);
    let s = e + dst.bits() as i32 - 1;
    let mag: u128 = if s >= 0 {
        if s > 64 {
            return None;
        }
        (m as u128) << s
    } else if -s >= 64 {
        0
    } else {
        (m as u128) >> (-s)
    };
    let a = if neg { -(mag as i128) } else { mag as i128 };
    let signed_dst = dst.signed_companion_same_width();
    if !in_range(signed_dst, a) {
        return None;
    }
    Some(from_amp(dst, a))
}

impl Fmt {
    /// signed integer format of the same width
    pub fn signed_companion_same_width(self) -> Fmt {
        match self.bits() {
            8 => Fmt::I8,
            16 => Fmt::I16,
            24 => Fmt::I24,
            32 => Fmt::I32,
            48 => Fmt::I48,
            _ => Fmt::I64,
        }
    }
}

/// f32 -> f64, exact, built from the bit fields (NaN payload is not modelled:
/// any NaN maps to "some NaN"; callers compare NaN-ness only).
pub fn f32_to_f64(x: f32) -> f64 {
    let b = x.to_bits();
    let neg = (b >> 31) != 0;
    let e = ((b >> 23) & 0xff) as i32;
    let f = (b & 0x7f_ffff) as u64;
    let mag = if e == 0xff {
        if f == 0 {
            f64::INFINITY
        } else {
            f64::NAN
        }
    } else if e == 0 {
        (f as f64) * pow2_f64(-149)
    } else {
        ((f | (1 << 23)) as f64) * pow2_f64(e - 150)
    };
    if neg {
        -mag
    } else {
        mag
    }
}

/// f64 -> f32, round to nearest, ties to even, by integer arithmetic on the
/// bit fields (overflow to infinity, gradual underflow).
pub fn f64_to_f32(x: f64) -> f32 {
    let b = x.to_bits();
    let neg = (b >> 63) != 0;
    let sign = if neg { 1u32 << 31 } else { 0 };
    let e = ((b >> 52) & 0x7ff) as i32;
    let f = b & ((1u64 << 52) - 1);
    if e == 0x7ff {
        return if f == 0 { f32::from_bits(sign | 0x7f80_0000) } else { f32::NAN };
    }
    let (m, ex) = if e == 0 { (f, -1074) } else { (f | (1u64 << 52), e - 1075) };
    if m == 0 {
        return f32::from_bits(sign);
    }
    // value = m * 2^ex, m < 2^53. Target: q * 2^t with t >= -149 and q < 2^24.
    let len = 64 - m.leading_zeros() as i32; // number of significant bits
    let top = ex + len - 1; // exponent of the leading bit
    let t = if top < -126 { -149 } else { top - 23 };
    // shift m right by (t - ex) with RNE
    let sh = t - ex;
    let q: u64 = if sh <= 0 {
        m << (-sh) // only when m is short; stays < 2^24
    } else if sh >= 64 {
        0
    } else {
        let q = m >> sh;
        let rem = m & ((1u64 << sh) - 1);
        let half = 1u64 << (sh - 1);
        q + (rem > half || (rem == half && (q & 1) == 1)) as u64
    };
    // assemble: q may have become 2^24 (carry) or reached 2^23 from the subnormal side
    if q == 0 {
        return f32::from_bits(sign);
    }
    let (q, t) = if q == (1 << 24) { (1u64 << 23, t + 1) } else { (q, t) };
    if q < (1 << 23) {
        // subnormal (t == -149)
        return f32::from_bits(sign | q as u32);
    }
    let biased = t + 23 + 127;
    if biased >= 0xff {
        return f32::from_bits(sign | 0x7f80_0000);
    }
    f32::from_bits(sign | ((biased as u32) << 23) | (q as u32 & 0x7f_ffff))
}

#[cfg(test)]
mod tests {
    use super::*;

    #[test]
    fn hand_values_int() {
        assert_eq!(conv_int(Fmt::I8, Fmt::I16, -128), -32768);
        assert_eq!(conv_int(Fmt::I8, Fmt::U8, -128), 0);
        assert_eq!(conv_int(Fmt::I8, Fmt::U8, 127), 255);
        assert_eq!(conv_int(Fmt::U8, Fmt::I16, 128), 0);
        assert_eq!(conv_int(Fmt::U8, Fmt::I16, 255), 127 << 8);
        assert_eq!(conv_int(Fmt::I16, Fmt::I8, -1), -1);
        assert_eq!(conv_int(Fmt::I16, Fmt::I8, 255), 0);
        assert_eq!(conv_int(Fmt::I16, Fmt::U8, -1), 127);
        assert_eq!(conv_int(Fmt::U16, Fmt::I8, 32767), -1);
        assert_eq!(conv_int(Fmt::U64, Fmt::I8, u64::MAX as i128), 127);
        assert_eq!(conv_int(Fmt::I64, Fmt::U48, i64::MIN as i128), 0);
        assert_eq!(conv_int(Fmt::I24, Fmt::U32, -8_388_608), 0);
        assert_eq!(conv_int(Fmt::I24, Fmt::U32, 8_388_607), 0xffff_ff00);
    }

    #[test]
    fn hand_values_float() {
        assert_eq!(int_to_f32(Fmt::I8, -128), -1.0);
        assert_eq!(int_to_f32(Fmt::U8, 128), 0.0);
        assert_eq!(int_to_f32(Fmt::U8, 255), 127.0 / 128.0);
        assert_eq!(int_to_f64(Fmt::I16, 16384), 0.5);
        assert_eq!(int_to_f32(Fmt::I32, i32::MAX as i128), 1.0);
        assert_eq!(int_to_f32(Fmt::I32, 0x4000_0001), 0.5);
        assert_eq!(int_to_f64(Fmt::I64, i64::MAX as i128), 1.0);
        assert_eq!(f64_to_int(Fmt::I8, -1.0), Some(-128));
        assert_eq!(f64_to_int(Fmt::U8, -1.0), Some(0));
        assert_eq!(f64_to_int(Fmt::U8, 0.0), Some(128));
        assert_eq!(f64_to_int(Fmt::I8, 0.999), Some(127));
        assert_eq!(f64_to_int(Fmt::I8, -0.999), Some(-127));
        assert_eq!(f64_to_int(Fmt::I8, 1.0), None);
        assert_eq!(f64_to_int(Fmt::I16, 0.5), Some(16384));
        assert_eq!(f64_to_int(Fmt::I16, -1e-300), Some(0));
        assert_eq!(f64_to_int(Fmt::I64, -1.0), Some(i64::MIN as i128));
    }

    #[test]
    fn cross_check_with_hardware_casts() {
        // not an oracle, a sanity check of the reference against the machine
        let mut x: u64 = 0x243F6A8885A308D3;
        for _ in 0..2_000_000 {
            x = x.wrapping_mul(6364136223846793005).wrapping_add(1442695040888963407);
            let v = x as i64;
            assert_eq!(int_to_f64(Fmt::I64, v as i128), v as f64 / 9_223_372_036_854_775_808.0);
            assert_eq!(int_to_f32(Fmt::I64, v as i128), v as f32 / 9_223_372_036_854_775_808.0);
            let w = (x >> 32) as i32;
            assert_eq!(int_to_f32(Fmt::I32, w as i128), w as f32 / 2_147_483_648.0);
            let d = f64::from_bits(x);
            if d.is_nan() {
                assert!(f64_to_f32(d).is_nan());
            } else {
                assert_eq!(f64_to_f32(d).to_bits(), (d as f32).to_bits(), "{d:e}");
            }
            // doubles near the f32 range boundaries
            let d2 = f64::from_bits((x & 0x800f_ffff_ffff_ffff) | ((0x360 + (x >> 52 & 0x3f)) << 52));
            assert_eq!(f64_to_f32(d2).to_bits(), (d2 as f32).to_bits(), "{d2:e}");
            let s = f32::from_bits(x as u32);
            if s.is_nan() {
                assert!(f32_to_f64(s).is_nan());
            } else {
                assert_eq!(f32_to_f64(s).to_bits(), (s as f64).to_bits());
            }
            let u = (x >> 11) as f64 / (1u64 << 53) as f64 * 2.0 - 1.0;
            assert_eq!(f64_to_int(Fmt::I32, u), Some((u * 2_147_483_648.0) as i32 as i128));
            assert_eq!(f64_to_int(Fmt::I64, u), Some((u * 9_223_372_036_854_775_808.0) as i64 as i128));
        }
        for d in [f64::MAX, f64::MIN_POSITIVE, 5e-324, 3.4028235677973366e38, 3.4028235e38, 1e-45, 7e-46, 1.1754942e-38] {
            assert_eq!(f64_to_f32(d).to_bits(), (d as f32).to_bits(), "{d:e}");
            assert_eq!(f64_to_f32(-d).to_bits(), (-d as f32).to_bits(), "{d:e}");
        }
    }

    #[test]
    fn wrap_values() {
        assert_eq!(wrap(-1024, 11, 1024), -1024);
        assert_eq!(wrap(-1024, 11, -1025), 1023);
        assert_eq!(wrap(0, 11, -1), 2047);
        assert_eq!(wrap(0, 11, 2048 * 5 + 3), 3);
    }
}


/// reference for `Sample::add_amp` / `offset_amp` on an integer format: add in the Signed companion
/// (None when the mathematical result leaves that format: outside the law's domain)
pub fn sample_add(f: Fmt, v: i128, a: i128) -> Option<i128> {
    let sc = f.signed_companion();
    let sum = conv_int(f, sc, v) + a;
    if !in_range(sc, sum) {
        return None;
    }
    Some(conv_int(sc, f, sum))
}

/// reference for `Sample::mul_amp` / `scale_amp` on an integer format: multiply natively in the
/// Float companion, convert back (None when the product leaves [-1, 1))
pub fn sample_mul(f: Fmt, v: i128, g: f64) -> Option<i128> {
    let p: f64 = if f.float_companion() == Fmt::F32 { (int_to_f32(f, v) * (g as f32)) as f64 } else { int_to_f64(f, v) * g };
    if !(p >= -1.0 && p < 1.0) {
        return None;
    }
    f64_to_int(f, p)
}
