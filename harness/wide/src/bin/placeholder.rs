fn main(){}
