//! C17 — oscillators (phase, sine, saw, square) and noise sources.

use checks::probe::Probe;
use common::{catch, guard, json, Ctx, Value};
use dasp_signal::{self as signal, Signal};
use rayon::prelude::*;
use std::sync::atomic::{AtomicU64, Ordering::Relaxed};

const PI2: f64 = std::f64::consts::PI * 2.0;
type Bad = (String, String);

/// exact fractional part of a sum of dyadic steps (multiples of 2^-20), as f64
struct ExactPhase {
    num: u128, // multiples of 2^-20
}
impl ExactPhase {
    fn add(&mut self, step: f64) {
        let s = step * (1u64 << 20) as f64;
        assert!(s.fract() == 0.0 && s >= 0.0);
        self.num += s as u128;
    }
    fn frac(&self) -> f64 {
        (self.num % (1 << 20)) as f64 / (1u64 << 20) as f64
    }
}

fn wave_ok(phase: f64, sine: f64, saw: f64, square: f64) -> Option<String> {
    // sin(2 pi phase) over the reals: the f64 product 2 pi x phase carries half an ulp of the
    // argument (and the f64 constant 2 pi another 0.39), which a correct implementation may or may
    // not compensate; both results are libm values (< 1 ulp each). Everything beyond that is an error.
    let arg = PI2 * phase;
    let es = arg.sin();
    let tol = 1.5 * arg.abs() * 2f64.powi(-53) * (arg.cos().abs() + 2f64.powi(-20)) + 3.0 * es.abs() * 2f64.powi(-52) + 1e-300;
    if !((sine - es).abs() <= tol) && !(sine.is_nan() && es.is_nan()) {
        return Some(format!("sine at phase {phase} = {sine}, sin(2 pi phase) = {es} (difference {:e}, rounding allows {tol:e})", (sine - es).abs()));
    }
    if saw != 1.0 - 2.0 * phase {
        return Some(format!("saw at phase {phase} = {saw}, 1 - 2 phase = {}", 1.0 - 2.0 * phase));
    }
    let eq = if phase < 0.5 { 1.0 } else { -1.0 };
    if square != eq {
        return Some(format!("square at phase {phase} = {square}, expected {eq}"));
    }
    for (n, v) in [("sine", sine), ("saw", saw), ("square", square)] {
        if !(v >= -1.0 && v <= 1.0) {
            return Some(format!("{n} = {v} outside [-1, 1] at phase {phase}"));
        }
    }
    None
}

/// constant frequency: (hz, rate), `frames` frames; dyadic => exact phase law
fn const_case(hz: f64, rate: f64, frames: usize, dyadic: bool) -> Option<Bad> {
    let tag = format!("hz={hz} rate={rate}");
    let step = hz / rate;
    let mut ph = signal::rate(rate).const_hz(hz).phase();
    let mut si = signal::rate(rate).const_hz(hz).sine();
    let mut sa = signal::rate(rate).const_hz(hz).saw();
    let mut sq = signal::rate(rate).const_hz(hz).square();
    let mut si2 = signal::rate(rate).const_hz(hz).phase().sine();
    let mut ex = ExactPhase { num: 0 };
    let mut acc = 0.0f64; // for the tolerant law
    for n in 0..frames {
        let p = ph.next();
        if !(p >= 0.0 && p < 1.0) {
            return Some(("osc.phase".into(), format!("{tag}: phase {n} = {p} outside [0, 1)")));
        }
        if n == 0 && p != 0.0 {
            return Some(("osc.phase".into(), format!("{tag}: the first phase is {p}, expected 0")));
        }
        if dyadic {
            if p != ex.frac() {
                return Some(("osc.phase".into(), format!("{tag}: phase {n} = {p}, frac(n * hz/rate) = {}", ex.frac())));
            }
            ex.add(step);
        } else {
            let want = acc.fract();
            let tol = (n as f64 + 1.0) * 2f64.powi(-52) * step.max(1.0) * 4.0;
            let d = (p - want).abs();
            if d.min(1.0 - d) > tol {
                return Some(("osc.phase".into(), format!("{tag}: phase {n} = {p}, expected about {want} (tolerance {tol:e})")));
            }
            // accumulate without letting the reference itself lose precision
            acc = (acc + step) % 1.0;
        }
        let (a, b, c, a2) = (si.next(), sa.next(), sq.next(), si2.next());
        if a2.to_bits() != a.to_bits() {
            return Some(("osc.wave".into(), format!("{tag}: const_hz.sine() and phase().sine() differ at frame {n}")));
        }
        if let Some(m) = wave_ok(p, a, b, c) {
            return Some(("osc.wave".into(), format!("{tag}: frame {n}: {m}")));
        }
        if n % 65536 == 0 {
            guard::tick();
        }
    }
    None
}

/// per-frame frequency through rate.hz(signal): one frequency frame per output frame
fn var_case(rate: f64, hzs: &[f64], dyadic: bool) -> Option<Bad> {
    let tag = format!("rate={rate} hz sequence {hzs:?}");
    let mk = || Probe::new(hzs.to_vec());
    let (p0, c0) = mk();
    let (p1, c1) = mk();
    let (p2, c2) = mk();
    let (p3, c3) = mk();
    let mut ph = signal::rate(rate).hz(p0).phase();
    let mut si = signal::rate(rate).hz(p1).sine();
    let mut sa = signal::rate(rate).hz(p2).saw();
    let mut sq = signal::rate(rate).hz(p3).square();
    let mut ex = ExactPhase { num: 0 };
    let mut acc = 0.0f64;
    for n in 0..hzs.len() {
        let p = ph.next();
        if !(p >= 0.0 && p < 1.0) {
            return Some(("osc.phase".into(), format!("{tag}: phase {n} = {p} outside [0, 1)")));
        }
        let step = hzs[n] / rate;
        if dyadic {
            if p != ex.frac() {
                return Some(("osc.phase".into(), format!("{tag}: phase {n} = {p}, expected {}", ex.frac())));
            }
            ex.add(step);
        } else {
            let d = (p - acc).abs();
            if d.min(1.0 - d) > 1e-12 {
                return Some(("osc.phase".into(), format!("{tag}: phase {n} = {p}, expected about {acc}")));
            }
            acc = (acc + step) % 1.0;
        }
        let (a, b, c) = (si.next(), sa.next(), sq.next());
        if let Some(m) = wave_ok(p, a, b, c) {
            return Some(("osc.wave".into(), format!("{tag}: frame {n}: {m}")));
        }
        for (name, cnt) in [("phase", &c0), ("sine", &c1), ("saw", &c2), ("square", &c3)] {
            if cnt.pulls() != n + 1 {
                return Some(("osc.pulls".into(), format!("{tag}: after {} output frames the {name} oscillator consumed {} frequency frames", n + 1, cnt.pulls())));
            }
        }
    }
    None
}

fn noise_case(seed: u64, frames: usize) -> Option<Bad> {
    let mut a = signal::noise(seed);
    let mut b = a.clone();
    let mut first = Vec::with_capacity(frames.min(4096));
    for k in 0..frames {
        let x = a.next();
        if !(x >= -1.0 && x <= 1.0) {
            return Some(("noise.range".into(), format!("noise(seed {seed}) frame {k} = {x} outside [-1, 1]")));
        }
        if k < 4096 {
            first.push(x);
            if b.next() != x {
                return Some(("noise.pure".into(), format!("noise(seed {seed}): a clone differs at frame {k}")));
            }
            // frame k of noise(s) == frame 0 of noise(s + k)
            if k < 64 || k % 251 == 0 {
                let y = signal::noise(seed + k as u64).next();
                if y != x {
                    return Some(("noise.pure".into(), format!("noise(seed {seed}) frame {k} = {x} but noise(seed {}) frame 0 = {y}", seed + k as u64)));
                }
            }
        }
    }
    let mut r = signal::noise(seed);
    for (k, &x) in first.iter().enumerate() {
        if r.next() != x {
            return Some(("noise.pure".into(), format!("noise(seed {seed}): a restart differs at frame {k}")));
        }
    }
    None
}

fn simplex_case(hz: f64, rate: f64, frames: usize) -> Option<Bad> {
    let mut a = signal::rate(rate).const_hz(hz).noise_simplex();
    let mut b = signal::rate(rate).const_hz(hz).phase().noise_simplex();
    for k in 0..frames {
        let x = a.next();
        if !(x >= -1.0 && x <= 1.0) {
            return Some(("simplex.range".into(), format!("noise_simplex(hz {hz}, rate {rate}) frame {k} = {x} outside [-1, 1]")));
        }
        if k < 100_000 && b.next().to_bits() != x.to_bits() {
            return Some(("simplex.pure".into(), format!("noise_simplex(hz {hz}, rate {rate}): two identical instances differ at frame {k}")));
        }
        if k % 65536 == 0 {
            guard::tick();
        }
    }
    None
}

/// Phase::next_phase_wrapped_to(rem) called directly with wrap values other than one cycle: each call
/// returns the current phase and advances it by the step, wrapped to that call's `rem`
/// (dyadic steps and wrap values: exact arithmetic in f64).
fn wrapped_to_case(step8: usize, rems: &[usize]) -> Option<Bad> {
    const REMS: [f64; 5] = [0.25, 0.5, 1.0, 2.0, 65536.0];
    let step = step8 as f64 / 8.0;
    let mut ph = signal::rate(8.0).const_hz(step8 as f64).phase();
    let mut s = 0.0f64;
    for (n, &ri) in rems.iter().enumerate() {
        let rem = REMS[ri % 5];
        let got = ph.next_phase_wrapped_to(rem);
        if got != s {
            return Some(("osc.wrapped_to".into(), format!("step {step}, wrap values {:?}: call {n} (wrapped to {rem}) returned {got}, expected {s}", rems.iter().map(|&r| REMS[r % 5]).collect::<Vec<_>>())));
        }
        s = (s + step) % rem;
    }
    None
}

fn replay(v: &Value) -> Option<String> {
    let f = |k: &str| f64::from_bits(v[k].as_str().and_then(|s| s.parse().ok()).unwrap_or(0));
    let us = |k: &str| v[k].as_u64().unwrap_or(0) as usize;
    let r = match v["sys"].as_str().unwrap_or("") {
        "const" => const_case(f("hz"), f("rate"), us("frames"), v["dyadic"].as_bool().unwrap_or(false)),
        "var" => var_case(f("rate"), &v["hzs"].as_array().map(|a| a.iter().map(|x| f64::from_bits(x.as_str().and_then(|s| s.parse().ok()).unwrap_or(0))).collect::<Vec<_>>()).unwrap_or_default(), v["dyadic"].as_bool().unwrap_or(false)),
        "wrapped_to" => wrapped_to_case(us("step8"), &v["rems"].as_array().map(|a| a.iter().map(|x| x.as_u64().unwrap_or(0) as usize).collect::<Vec<_>>()).unwrap_or_default()),
        "noise" => noise_case(v["seed"].as_str().and_then(|s| s.parse().ok()).unwrap_or(0), us("frames")),
        "simplex" => simplex_case(f("hz"), f("rate"), us("frames")),
        _ => Some(("c17".into(), "unknown case".into())),
    };
    r.map(|e| format!("{}: {}", e.0, e.1))
}

fn b(x: f64) -> String {
    x.to_bits().to_string()
}

fn main() {
    let ctx = Ctx::new("C17", "release");
    if let Some(v) = ctx.replay_case() {
        let _guard_scope = guard::scoped(&v.to_string());
        ctx.finish_replay(catch(|| replay(&v)).unwrap_or_else(|p| Some(format!("panic: {p}"))));
    }
    guard::set_hang_secs(300);
    let evals = AtomicU64::new(0);
    let run = |case: Value, key_hint: &str, f: &(dyn Fn() -> Option<Bad> + Sync)| {
        let _guard_scope = guard::scoped(&case.to_string());
        match catch(f) {
            Ok(None) => ctx.observe(common::fnv_str(&case.to_string())),
            Ok(Some((k, m))) => ctx.violation(&k, case, m, Some(&|| f().map(|e| e.1))),
            Err(p) => ctx.violation(key_hint, case, format!("panic: {p}"), None),
        }
        guard::leave();
    };
    // constant frequency
    let long = ctx.tier.pick(1_000_000usize, 10_000_000);
    let dy_steps = [0.0, 0.125, 0.25, 0.5, 0.75, 1.0, 1.25, 2.0, 7.5, 1000.25];
    let mut consts: Vec<(f64, f64, usize, bool)> = Vec::new();
    for &s in &dy_steps {
        for rate in [1.0, 8.0, 1024.0] {
            consts.push((s * rate, rate, 4096, true));
        }
    }
    for (hz, rate) in [(440.0, 44_100.0), (0.1, 1.0), (1.0, 3.0), (0.999_999, 1.0), (1e-9, 1.0), (12_345.678, 1.0), (48_000.0, 44_100.0), (20_000.0, 96_000.0)] {
        consts.push((hz, rate, long, false));
    }
    consts.par_iter().for_each(|&(hz, rate, frames, dy)| {
        evals.fetch_add(frames as u64, Relaxed);
        run(json!({"sys":"const","hz":b(hz),"rate":b(rate),"frames":frames,"dyadic":dy}), "osc.panic", &|| const_case(hz, rate, frames, dy));
    });
    // per-frame frequency: every sequence over 4 letters of length <= 6
    let maxl = ctx.tier.pick(5, 6);
    let mut vars: Vec<(f64, Vec<f64>, bool)> = Vec::new();
    for (rate, alpha, dy) in [(8.0, [0.0, 1.0, 6.0, 20.0], true), (44_100.0, [0.0, 440.0, 22_050.0, 50_000.0], false)] {
        for l in 1..=maxl {
            for code in 0..4usize.pow(l as u32) {
                vars.push((rate, (0..l).map(|j| alpha[(code / 4usize.pow(j as u32)) % 4]).collect(), dy));
            }
        }
    }
    // the standard sample rates, with frequencies up to 2.5 x the rate (a per-frame step above 2)
    for rate in [44_100.0f64, 48_000.0, 88_200.0, 96_000.0, 192_000.0, 50_000.0] {
        let alpha = [0.0, 440.0, rate / 2.0, rate * 1.25, rate * 2.5];
        for l in 1..=maxl.min(5) {
            for code in 0..5usize.pow(l as u32) {
                vars.push((rate, (0..l).map(|j| alpha[(code / 5usize.pow(j as u32)) % 5]).collect(), false));
            }
        }
    }
    vars.par_iter().for_each(|(rate, hzs, dy)| {
        evals.fetch_add(hzs.len() as u64, Relaxed);
        run(json!({"sys":"var","rate":b(*rate),"hzs":hzs.iter().map(|x| b(*x)).collect::<Vec<_>>(),"dyadic":dy}), "osc.panic", &|| var_case(*rate, hzs, *dy));
    });
    // next_phase_wrapped_to with wrap values other than one cycle
    let mut wts: Vec<(usize, Vec<usize>)> = Vec::new();
    for step8 in [0usize, 1, 2, 3, 5, 6, 8, 12, 24, 60] {
        // one wrap value per sequence: what a call does with a step taken under a DIFFERENT earlier
        // wrap value is not pinned by the property (an implementation may wrap a step when it is
        // taken or when the next phase is asked for)
        for l in 1..=8usize {
            for ri in 0..5usize {
                wts.push((step8, vec![ri; l]));
            }
        }
    }
    wts.par_iter().for_each(|(step8, rems)| {
        evals.fetch_add(rems.len() as u64, Relaxed);
        run(json!({"sys":"wrapped_to","step8":step8,"rems":rems}), "osc.panic", &|| wrapped_to_case(*step8, rems));
    });
    // noise
    let nframes = 1usize << 20;
    let mut seeds: Vec<(u64, usize)> = [0u64, 1, 2, 12_345, 1 << 31, (1 << 32) - 1, 1 << 32, 1 << 63, u64::MAX - (1 << 21)].iter().map(|&s| (s, nframes)).collect();
    let dense = ctx.tier.pick(1u64 << 16, 1 << 22);
    for s in (0..dense).step_by(64) {
        seeds.push((s, 64));
    }
    seeds.par_iter().for_each(|&(s, n)| {
        evals.fetch_add(n as u64, Relaxed);
        run(json!({"sys":"noise","seed":s.to_string(),"frames":n}), "noise.panic", &|| noise_case(s, n));
    });
    // simplex: 2^24 dyadic phase points over [0, 65536) and non-dyadic runs
    let mut simp: Vec<(f64, f64, usize)> = vec![(1.0, 256.0, ctx.tier.pick(1 << 22, 1 << 24) + 16), (1.0, 1.0, 70_000), (0.5, 1.0, 140_000), (1000.25, 1.0, 100_000)];
    for (hz, rate) in [(440.0, 44_100.0), (0.1, 1.0), (1.0, 3.0), (12_345.678, 1.0), (7.0, 1.3)] {
        simp.push((hz, rate, long.min(2_000_000)));
    }
    simp.par_iter().for_each(|&(hz, rate, n)| {
        evals.fetch_add(n as u64, Relaxed);
        run(json!({"sys":"simplex","hz":b(hz),"rate":b(rate),"frames":n}), "simplex.panic", &|| simplex_case(hz, rate, n));
    });
    ctx.add_evals(evals.load(Relaxed));
    ctx.set("exhaustive", json!(false));
    ctx.set("exhaustive_scope", json!("finite alphabets of steps / frequency sequences / seeds, enumerated completely; every per-frame sequence over 4 letters to the stated length; all 2^64 seeds and arbitrary real frequencies are not covered"));
    ctx.rule(&format!("constant frequency: 10 dyadic steps x 3 rates (phase law exact: phase_n == frac(n*step), first phase 0, phase in [0,1)) and 8 non-dyadic (hz, rate) pairs run for {long} frames (tolerance n*2^-50); sine == sin(2 pi phase) within the rounding of the argument (1.5 x |arg| x 2^-53 x |cos arg|) plus 3 ulp of the result, saw == 1 - 2 phase and square == +1 for phase < 1/2 else -1 exactly, with the phase taken from an identically constructed Phase run in lock step; all outputs in [-1,1]; per-frame frequency: every sequence over 4 letters of length <= {maxl} (dyadic alphabet at rate 8, audio alphabet at 44100; and over {{0, 440, rate/2, 1.25 rate, 2.5 rate}} to length 5 at 44100, 48000, 88200, 96000, 192000 and 50000 Hz) through rate.hz(instrumented signal): one frequency frame consumed per output frame for phase, sine, saw and square; Phase::next_phase_wrapped_to called directly with one wrap value in {{1/4, 1/2, 1, 2, 65536}} for up to 8 calls x 10 dyadic steps: call n returns (n x step) mod the wrap value, exactly; noise: 9 boundary seeds x 2^20 frames + every 64th seed below {dense}: range, clone/restart reproduce, frame k of noise(s) == frame 0 of noise(s+k); simplex: all multiples of 2^-8 in [0,65536) (quick: the first 2^22) and non-dyadic runs: range, purity; evaluations = frames generated; distinct by configuration"));
    ctx.sample(json!({"sys":"var","rate":b(8.0),"hzs":[b(6.0), b(20.0), b(0.0), b(1.0)],"dyadic":true}));
    ctx.sample(json!({"sys":"noise","seed":"4294967295","frames":1048576}));
    ctx.assume("seeds with seed + frames >= 2^64 are excluded: the internal counter then overflows (a panic in debug builds, a wrap in release), which the property does not speak about");
    ctx.assume("libm sin (accurate to < 1 ulp) is the reference for the sine shape");
    ctx.finish();
}
