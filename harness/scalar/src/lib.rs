//! Value domains and format traits shared by the sample-level explorers.

pub mod domain;
pub mod fmts;
