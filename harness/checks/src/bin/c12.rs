//! C12 — Fork: every interleaving of next() on the two branches whose lead
//! stays within the ring buffer's capacity, by-reference / re-split /
//! reference-counted branches. Unmerged (every history replayed on a fresh
//! fork, nothing merged) plus a merged stateright run on (lead, ring phase).

use checks::probe::{Counters, Gen};
use common::{catch, guard, json, Ctx, Value};
use dasp_ring_buffer::Bounded;
use dasp_signal::Signal;
use rayon::prelude::*;
use stateright::{Checker, Model, Property};
use std::hash::{Hash, Hasher};
use std::sync::atomic::{AtomicU64, Ordering::Relaxed};

type Bad = Option<(String, String)>;

#[derive(Clone, Copy, Debug, PartialEq, Eq, Hash)]
enum Mode {
    RefHold,        // one by_ref() pair for the whole history
    RefResplit,     // branches dropped and by_ref() called again before every step
    Rc,             // by_rc() from the start
    RefThenRc(u8),  // by_ref for the first k steps (re-split every step), then by_rc
    CloneAt(u8),    // by_ref (re-split every step) for the first k steps, then the fork is cloned and the CLONE is driven
}

impl Mode {
    fn name(self) -> String {
        match self {
            Mode::RefHold => "ref_hold".into(),
            Mode::RefResplit => "ref_resplit".into(),
            Mode::Rc => "rc".into(),
            Mode::RefThenRc(k) => format!("ref_then_rc:{k}"),
            Mode::CloneAt(k) => format!("clone_at:{k}"),
        }
    }
    fn parse(s: &str) -> Option<Mode> {
        Some(match s {
            "ref_hold" => Mode::RefHold,
            "ref_resplit" => Mode::RefResplit,
            "rc" => Mode::Rc,
            _ if s.starts_with("clone_at:") => Mode::CloneAt(s.strip_prefix("clone_at:")?.parse().ok()?),
            _ => Mode::RefThenRc(s.strip_prefix("ref_then_rc:")?.parse().ok()?),
        })
    }
}

/// reference model of the fork
#[derive(Clone, Debug, Default)]
struct Ref {
    pos: [usize; 2],
}

fn source() -> (impl Signal<Frame = f64> + Clone, Counters) {
    Gen::new(|n| n as f64)
}

/// check after a step: returned frame, pulls, pending counts
fn after(r: &mut Ref, who: usize, frame: f64, pend: [usize; 2], pulls: usize, tag: &str) -> Bad {
    let k = r.pos[who];
    r.pos[who] += 1;
    if frame != k as f64 {
        return Some(("fork.stream".into(), format!("{tag}: branch {} received frame {frame} as its frame #{k}", ["A", "B"][who])));
    }
    let p = r.pos[0].max(r.pos[1]);
    if pulls != p {
        return Some(("fork.pulls".into(), format!("{tag}: the source was pulled {pulls} times after positions A={} B={} (expected {p})", r.pos[0], r.pos[1])));
    }
    let want = [r.pos[1].saturating_sub(r.pos[0]), r.pos[0].saturating_sub(r.pos[1])];
    if pend != want {
        return Some(("fork.pending".into(), format!("{tag}: pending_frames (A,B) = {pend:?}, lags are {want:?} (positions A={} B={})", r.pos[0], r.pos[1])));
    }
    None
}

/// Run one history (bit i of `hist`: 0 = A.next(), 1 = B.next()) on a fresh fork.
/// Steps that would push the lead beyond the capacity are not part of the
/// property's domain: the history ends there. Returns (steps run, final positions).
/// a panic anywhere in the fork under test (an overflow check, a debug assertion) is a violation: the
/// property promises frames for every in-boundary interleaving
fn run_history(cap: usize, start: usize, mode: Mode, hist: u128, len: usize) -> Result<(usize, [usize; 2]), (String, String)> {
    match common::catch(|| run_history_inner(cap, start, mode, hist, len)) {
        Ok(r) => r,
        Err(p) => Err(("fork.panic".into(), format!("capacity {cap}, ring start {start}, {mode:?}, interleaving of {len} pulls: panicked: {p}"))),
    }
}

fn run_history_inner(cap: usize, start: usize, mode: Mode, hist: u128, len: usize) -> Result<(usize, [usize; 2]), (String, String)> {
    let (src, c) = source();
    let data = vec![-1.0f64; cap];
    let ring = Bounded::from_raw_parts(start, 0, data);
    let mut fork = src.fork(ring);
    let mut r = Ref::default();
    let tag = format!("cap={cap} start={start} mode={} history={}", mode.name(), show(hist, len));
    let within = |r: &Ref, who: usize| {
        let mut p = r.pos;
        p[who] += 1;
        p[0].abs_diff(p[1]) <= cap
    };
    macro_rules! step {
        ($a:expr, $b:expr, $who:expr, $r:expr) => {{
            let f = if $who == 0 { $a.next() } else { $b.next() };
            let pend = [$a.pending_frames(), $b.pending_frames()];
            if let Some(b) = after($r, $who, f, pend, c.pulls(), &tag) {
                return Err(b);
            }
        }};
    }
    let mut i = 0;
    match mode {
        Mode::RefHold => {
            let (mut a, mut b) = fork.by_ref();
            while i < len {
                let who = ((hist >> i) & 1) as usize;
                if !within(&r, who) {
                    break;
                }
                step!(a, b, who, &mut r);
                i += 1;
            }
        }
        Mode::RefResplit | Mode::RefThenRc(_) => {
            let k = if let Mode::RefThenRc(k) = mode { k as usize } else { usize::MAX };
            while i < len && i < k {
                let who = ((hist >> i) & 1) as usize;
                if !within(&r, who) {
                    return Ok((i, r.pos));
                }
                let (mut a, mut b) = fork.by_ref();
                step!(a, b, who, &mut r);
                i += 1;
            }
            if i < len {
                let (mut a, mut b) = fork.by_rc();
                while i < len {
                    let who = ((hist >> i) & 1) as usize;
                    if !within(&r, who) {
                        break;
                    }
                    step!(a, b, who, &mut r);
                    i += 1;
                }
            }
        }
        Mode::CloneAt(k) => {
            let fresh_copy = fork.clone();
            // the clone has seen the same frames as its original: both of its branches must go on
            // exactly where the original's stood (the original is not pulled any more, so the shared
            // pull counter keeps counting for the clone)
            while i < len && i < k as usize {
                let who = ((hist >> i) & 1) as usize;
                if !within(&r, who) {
                    return Ok((i, r.pos));
                }
                let (mut a, mut b) = fork.by_ref();
                step!(a, b, who, &mut r);
                i += 1;
            }
            // (for histories whose bit 2 is set, through clone_from() into a copy of the fresh fork)
            let mut f2 = if (hist >> 2) & 1 == 0 {
                fork.clone()
            } else {
                let mut t = fresh_copy;
                t.clone_from(&fork);
                t
            };
            if i % 2 == 0 {
                let (mut a, mut b) = f2.by_ref();
                while i < len {
                    let who = ((hist >> i) & 1) as usize;
                    if !within(&r, who) {
                        break;
                    }
                    step!(a, b, who, &mut r);
                    i += 1;
                }
            } else {
                let (mut a, mut b) = f2.by_rc();
                while i < len {
                    let who = ((hist >> i) & 1) as usize;
                    if !within(&r, who) {
                        break;
                    }
                    step!(a, b, who, &mut r);
                    i += 1;
                }
            }
        }
        Mode::Rc => {
            let (mut a, mut b) = fork.by_rc();
            while i < len {
                let who = ((hist >> i) & 1) as usize;
                if !within(&r, who) {
                    break;
                }
                step!(a, b, who, &mut r);
                i += 1;
            }
        }
    }
    Ok((i, r.pos))
}

/// soak probe: one long deterministic interleaving (bursts of varying length, always inside the
/// boundary) on a single fork; by_ref re-split every 97 steps, then by_rc for the second half
fn soak(cap: usize, steps: usize, pattern: usize) -> Option<(String, String)> {
    let (src, c) = source();
    let mut fork = src.fork(Bounded::from(vec![-1.0f64; cap]));
    let mut r = Ref::default();
    let tag = format!("soak cap={cap} steps={steps}");
    let pick = |t: usize, r: &Ref| -> usize {
        // bursts: A for a while, then B for a while, lengths cycling through 1..=2*cap+1; for the
        // 16-bit boundary capacities: A runs a full capacity ahead, B catches up, B runs a full
        // capacity ahead, A catches up, and so on
        // (pattern 1, large capacities only: two bursts of a third of the capacity for A, one for B, so
        // that the lead hovers just below the capacity while the ring's start travels round the storage)
        let burst = if cap >= 1000 { if pattern == 1 { cap / 3 + 1 } else { cap } } else { 1 + (t / 7) % (2 * cap + 1) };
        let want = if cap >= 1000 {
            if pattern == 1 {
                [0, 0, 1][(t / burst) % 3]
            } else {
                [0, 1, 1, 0][(t / burst) % 4]
            }
        } else {
            (t / burst) % 2
        };
        let mut p = r.pos;
        p[want] += 1;
        if p[0].abs_diff(p[1]) <= cap {
            want
        } else {
            1 - want
        }
    };
    let mut t = 0;
    while t < steps / 2 {
        let (mut a, mut b) = fork.by_ref();
        for _ in 0..97 {
            let who = pick(t, &r);
            let f = if who == 0 { a.next() } else { b.next() };
            if let Some(bad) = after(&mut r, who, f, [a.pending_frames(), b.pending_frames()], c.pulls(), &format!("{tag} step {t} (by_ref)")) {
                return Some(bad);
            }
            t += 1;
        }
    }
    let (mut a, mut b) = fork.by_rc();
    while t < steps {
        let who = pick(t, &r);
        let f = if who == 0 { a.next() } else { b.next() };
        if let Some(bad) = after(&mut r, who, f, [a.pending_frames(), b.pending_frames()], c.pulls(), &format!("{tag} step {t} (by_rc)")) {
            return Some(bad);
        }
        t += 1;
    }
    None
}

fn show(hist: u128, len: usize) -> String {
    (0..len).map(|i| if (hist >> i) & 1 == 0 { 'A' } else { 'B' }).collect()
}

fn case_json(cap: usize, start: usize, mode: Mode, hist: u128, len: usize) -> Value {
    json!({"sys":"fork","cap":cap,"start":start,"mode":mode.name(),"history":show(hist,len)})
}

/// fork() must refuse a non-empty ring buffer and accept every empty one
fn ctor_case(cap: usize, start: usize, len: usize) -> Bad {
    let r = catch(|| {
        let (src, _c) = source();
        let ring = Bounded::from_raw_parts(start, len, vec![0.0f64; cap]);
        let mut f = src.fork(ring);
        let (mut a, _b) = f.by_ref();
        a.next()
    });
    // the property is about forks over an empty ring buffer; what fork() does with a non-empty one
    // (today: an assertion) is outside it and is not judged
    if len == 0 && r.is_err() {
        return Some(("fork.ctor".into(), format!("fork() over an EMPTY ring buffer with start={start} of capacity {cap} panicked")));
    }
    None
}

// ----------------------------------------------------------------- merged model
#[derive(Clone, Debug)]
struct St {
    key: (i32, u8), // (posA - posB, min(posA,posB) mod capacity)
    witness: (u128, u8),
    bad: bool,
}
impl PartialEq for St {
    fn eq(&self, o: &St) -> bool {
        self.key == o.key && self.bad == o.bad
    }
}
impl Eq for St {}
impl Hash for St {
    fn hash<H: Hasher>(&self, h: &mut H) {
        self.key.hash(h);
        self.bad.hash(h);
    }
}

struct ForkModel {
    ctx: &'static Ctx,
    cap: usize,
    mode: Mode,
}
static TRANS: AtomicU64 = AtomicU64::new(0);

impl Model for ForkModel {
    type State = St;
    type Action = u8;
    fn init_states(&self) -> Vec<St> {
        vec![St { key: (0, 0), witness: (0, 0), bad: false }]
    }
    fn actions(&self, s: &St, out: &mut Vec<u8>) {
        if s.bad || s.witness.1 >= 126 {
            return;
        }
        for who in 0..2u8 {
            let lead = s.key.0 + if who == 0 { 1 } else { -1 };
            if lead.unsigned_abs() as usize <= self.cap {
                out.push(who);
            }
        }
    }
    fn next_state(&self, s: &St, who: u8) -> Option<St> {
        let (h, l) = s.witness;
        let hist = h | ((who as u128) << l);
        let len = l as usize + 1;
        let case = case_json(self.cap, 0, self.mode, hist, len);
        let _guard_scope = guard::scoped(&case.to_string());
        TRANS.fetch_add(1, Relaxed);
        match run_history(self.cap, 0, self.mode, hist, len) {
            Ok((_, pos)) => Some(St { key: (pos[0] as i32 - pos[1] as i32, (pos[0].min(pos[1]) % self.cap) as u8), witness: (hist, len as u8), bad: false }),
            Err((k, m)) => {
                let (cap, mode) = (self.cap, self.mode);
                self.ctx.violation(&k, case, m, Some(&move || run_history(cap, 0, mode, hist, len).err().map(|e| e.1)));
                Some(St { key: s.key, witness: (hist, len as u8), bad: true })
            }
        }
    }
    fn properties(&self) -> Vec<Property<Self>> {
        vec![Property::always("both branches see the source stream", |_, s: &St| !s.bad)]
    }
}

fn main() {
    let _final_guard = common::FinalGuard::new();
    let ctx: &'static Ctx = Ctx::leak("C12", "release");
    if let Some(v) = ctx.replay_case() {
        let _guard_scope = guard::scoped(&v.to_string());
        if v["sys"] == "fork_soak" {
            ctx.finish_replay(soak(v["cap"].as_u64().unwrap_or(1) as usize, v["steps"].as_u64().unwrap_or(1000) as usize, v["pattern"].as_u64().unwrap_or(0) as usize).map(|e| e.1));
        }
        if v["sys"] == "fork_ctor" {
            ctx.finish_replay(ctor_case(v["cap"].as_u64().unwrap_or(1) as usize, v["start"].as_u64().unwrap_or(0) as usize, v["len"].as_u64().unwrap_or(0) as usize).map(|e| e.1));
        }
        let hs = v["history"].as_str().unwrap_or("");
        let hist = hs.chars().enumerate().fold(0u128, |a, (i, c)| a | (((c == 'B') as u128) << i));
        let mode = Mode::parse(v["mode"].as_str().unwrap_or("")).unwrap_or(Mode::RefHold);
        let r = catch(|| run_history(v["cap"].as_u64().unwrap_or(1) as usize, v["start"].as_u64().unwrap_or(0) as usize, mode, hist, hs.len()));
        ctx.finish_replay(match r {
            Ok(Ok(_)) => None,
            Ok(Err(e)) => Some(format!("{}: {}", e.0, e.1)),
            Err(p) => Some(format!("panic: {p}")),
        });
    }
    let len = ctx.tier.pick(16, 20);
    let maxcap: usize = ctx.tier.pick(4, 6);
    ctx.rule(&format!("unmerged: every A/B history of length {len} (quick 16 / thorough 20) for capacities 1..=4 (thorough 1..=6), each replayed on a fresh fork over an index-valued instrumented source; a step that would put one branch more than `capacity` ahead ends the history (outside the property's domain); modes: by_ref held, by_ref re-split before every step, by_rc, by_ref for k steps then by_rc for every k, by_ref for k <= 8 steps then Fork::clone() with the rest of the history driven on the clone (by_ref or by_rc); every ring start offset; after every step: the branch's k-th frame is k, source pulls == max(posA,posB), pending_frames == lag; non-trivial = a history in which both branches were pulled, distinct by (capacity, start, mode, history)"));
    ctx.rule("merged: stateright BFS to fixpoint on (lead, min(posA,posB) mod capacity), also for the larger capacities 8, 16, 24, 32, 48, each transition executed on a real fork rebuilt by replaying the BFS witness history; constructor: fork() accepts every empty ring buffer (any start offset) of capacities 1..=4");

    // constructor
    let mut evals = 0u64;
    for cap in 1..=maxcap {
        for start in 0..cap {
            for l in 0..=cap {
                evals += 1;
                let case = json!({"sys":"fork_ctor","cap":cap,"start":start,"len":l});
                let _guard_scope = guard::scoped(&case.to_string());
                if let Some((k, m)) = ctor_case(cap, start, l) {
                    ctx.violation(&k, case, m, Some(&|| ctor_case(cap, start, l).map(|e| e.1)));
                }
            }
        }
    }

    // unmerged
    let mut jobs: Vec<(usize, usize, Mode)> = Vec::new();
    for cap in 1..=maxcap {
        for start in 0..cap {
            jobs.push((cap, start, Mode::RefHold));
        }
        jobs.push((cap, 0, Mode::RefResplit));
        jobs.push((cap, cap - 1, Mode::Rc));
        for k in 0..=len as u8 {
            jobs.push((cap, 0, Mode::RefThenRc(k)));
        }
        for k in 0..=(len as u8).min(8) {
            jobs.push((cap, cap / 2, Mode::CloneAt(k)));
        }
    }
    let hist_n = AtomicU64::new(0);
    let steps_n = AtomicU64::new(0);
    guard::set_hang_secs(120);
    jobs.par_iter().for_each(|&(cap, start, mode)| {
        let mut fps = Vec::new();
        let mut h = 0u64;
        let mut st = 0u64;
        for hist in 0..(1u128 << len) {
            if hist & 0xfff == 0 {
                let _guard_scope = guard::scoped(&case_json(cap, start, mode, hist, len).to_string());
            }
            match run_history(cap, start, mode, hist, len) {
                Ok((n, pos)) => {
                    // a history cut short is the same as a shorter one: count it once (when the tail is all A's)
                    if n == len || (hist >> n) == 0 {
                        h += 1;
                        st += n as u64;
                        if pos[0] > 0 && pos[1] > 0 && fps.len() < 2048 {
                            fps.push(common::mix(common::fnv_str(&format!("{cap}/{start}/{}", mode.name())), hist as u64));
                        }
                    }
                }
                Err((k, m)) => ctx.violation(&k, case_json(cap, start, mode, hist, len), m, Some(&|| run_history(cap, start, mode, hist, len).err().map(|e| e.1))),
            }
        }
        hist_n.fetch_add(h, Relaxed);
        steps_n.fetch_add(st, Relaxed);
        ctx.observe_many(fps);
        guard::leave();
    });
    ctx.set("unmerged_histories", json!(hist_n.load(Relaxed)));
    ctx.set("unmerged_steps", json!(steps_n.load(Relaxed)));
    ctx.set("unmerged_length", json!(len));

    // merged
    let mut inst = Vec::new();
    for cap in 1..=maxcap {
        for mode in [Mode::RefHold, Mode::RefResplit, Mode::Rc] {
            inst.push((cap, mode));
        }
    }
    // scale probes (merged run only): larger capacities, fixpoint of (lead, ring phase)
    for cap in [8usize, 16, 24, 32, 48] {
        for mode in [Mode::RefHold, Mode::Rc] {
            inst.push((cap, mode));
        }
    }
    let res: Vec<(usize, usize)> = inst
        .par_iter()
        .map(|&(cap, mode)| {
            let c = ForkModel { ctx, cap, mode }.checker().threads(1).spawn_bfs().join();
            (c.unique_state_count(), c.max_depth())
        })
        .collect();
    let uniq: usize = res.iter().map(|r| r.0).sum();
    ctx.add_states(uniq as u64 + hist_n.load(Relaxed));
    ctx.add_transitions(TRANS.load(Relaxed) + steps_n.load(Relaxed));
    ctx.add_evals(evals + hist_n.load(Relaxed) + TRANS.load(Relaxed));
    ctx.set("merged_unique_states", json!(uniq));
    ctx.set("merged_max_depth", json!(res.iter().map(|r| r.1).max()));
    let soak_steps = ctx.tier.pick(50_000, 1_000_000);
    for cap in [1usize, 2, 3, 5, 8, 48, 64, 96] {
        let _guard_scope = guard::scoped(&json!({"sys":"fork_soak","cap":cap,"steps":soak_steps}).to_string());
        ctx.add_evals(soak_steps as u64);
        ctx.add_transitions(soak_steps as u64);
        if let Some((k, m)) = soak(cap, soak_steps, 0) {
            ctx.violation(&k, json!({"sys":"fork_soak","cap":cap,"steps":soak_steps}), m, Some(&|| soak(cap, soak_steps, 0).map(|e| e.1)));
        }
    }
    // 16-bit boundary probes: the lead reaches a full capacity of 2^16 +- 1 frames
    let big: Vec<usize> = vec![1024, 4096, 44100, 48000, 65535, 65536, 65537];
    let bigjobs: Vec<(usize, usize)> = big.iter().flat_map(|&c| [(c, 0usize), (c, 1)]).collect();
    bigjobs.par_iter().for_each(|&(cap, pattern)| {
        let steps = 9 * cap + 200;
        let case = json!({"sys":"fork_soak","cap":cap,"steps":steps,"pattern":pattern});
        let _guard_scope = guard::scoped(&case.to_string());
        ctx.add_evals(steps as u64);
        if let Some((k, m)) = soak(cap, steps, pattern) {
            ctx.violation(&k, case, m, Some(&|| soak(cap, steps, pattern).map(|e| e.1)));
        }
    });
    ctx.rule("16-bit boundary and audio-typical capacities 1024, 4096, 44100, 48000, 65535, 65536, 65537: two interleavings of 9 x capacity pulls: each branch in turn a full capacity ahead while the other catches up; and bursts of a third of the capacity, two for A and one for B, so that the lead hovers just below the capacity while the ring's start travels round the storage (by_ref re-split every 97 steps, then by_rc), same checks after every pull");
    ctx.rule(&format!("soak probes: one deterministic interleaving of {soak_steps} pulls (bursts of cycling length, always inside the boundary) per capacity in 1,2,3,5,8,48,64,96 on a single fork: by_ref re-split every 97 steps for the first half, by_rc for the second (single executions, labelled)"));
    ctx.set("exhaustive", json!(true));
    ctx.set("exhaustive_scope", json!(format!("every in-boundary interleaving up to length {len} for capacities 1..=4 (unmerged); the merged run reaches a fixpoint of (lead, ring phase) and so covers longer histories under the stated abstraction")));
    ctx.sample(case_json(3, 1, Mode::RefHold, 0b0001_1101_0110, 12));
    ctx.sample(case_json(2, 0, Mode::RefThenRc(3), 0b1010_0110, 8));
    ctx.assume("merged run only: the fork's behaviour depends on absolute positions only through (lead, ring phase); the unmerged run assumes nothing");
    ctx.finish();
}
