//! C19 — rectifiers (value sweeps) and the envelope follower (history
//! enumeration against the one-pole formula evaluated from the observed
//! previous output).

use checks::domain::Domain;
use checks::fmts::IntS;
use checks::for_int_fmts;
use checks::probe::Probe;
use common::refmodel::{amp, conv_int, from_amp};
use common::{catch, guard, json, Ctx, Value};
use dasp_envelope::{Detect, Detector};
use dasp_frame::Frame;
use dasp_peak::{self as peak, Rectifier};
use dasp_ring_buffer::Fixed;
use dasp_sample::{Sample, I24, I48, U24, U48};
use dasp_signal::envelope::SignalEnvelope;
use dasp_signal::Signal;
use rayon::prelude::*;
use std::fmt::Debug;
use std::sync::atomic::{AtomicU64, Ordering::Relaxed};

type Bad = (String, String);

// ------------------------------------------------------------ rectifier sweeps
fn rect_single<S: IntS + Frame<Sample = S>>(v: i128) -> Option<String>
where
    <S as Sample>::Signed: IntS,
    <S as Frame>::Signed: Frame<Sample = <S as Sample>::Signed>,
    [S; 3]: Frame<Sample = S, Signed = [<S as Sample>::Signed; 3]>,
{
    let f = S::FMT;
    let sc = f.signed_companion();
    let s = S::from_i128(v);
    let a = conv_int(f, sc, v); // amplitude in the Signed companion
    // positive / negative half wave: clamp in the native format
    let eq = f.half();
    let (ep, en) = (v.max(eq), v.min(eq));
    // 3-channel frame, position-coded: channel 0 = s, 1 = equilibrium, 2 = s
    let fr: [S; 3] = [s, <S as Sample>::EQUILIBRIUM, s];
    let p = peak::positive_half_wave(fr);
    let n = peak::negative_half_wave(fr);
    if p[0].to_i128() != ep || p[2].to_i128() != ep || p[1] != <S as Sample>::EQUILIBRIUM || peak::positive_half_wave(s).to_i128() != ep || peak::PositiveHalfWave.rectify(s).to_i128() != ep {
        return Some(format!("{} positive_half_wave({v}) = {}, expected {ep}", f.name(), p[0].to_i128()));
    }
    if n[0].to_i128() != en || n[2].to_i128() != en || n[1] != <S as Sample>::EQUILIBRIUM || peak::negative_half_wave(s).to_i128() != en || peak::NegativeHalfWave.rectify(s).to_i128() != en {
        return Some(format!("{} negative_half_wave({v}) = {}, expected {en}", f.name(), n[0].to_i128()));
    }
    // full wave: |amplitude| in the Signed format; excluded: the value whose negated amplitude is unrepresentable
    if a != sc.min() {
        let ef = a.abs();
        let w = peak::full_wave(fr);
        let w1 = peak::full_wave(s);
        let w2 = peak::FullWave.rectify(fr);
        if w[0].to_i128() != ef || w[2].to_i128() != ef || w[1].to_i128() != 0 || w2[0].to_i128() != ef {
            return Some(format!("{} full_wave({v}) = {}, |signed amplitude| = {ef}", f.name(), w[0].to_i128()));
        }
        let w1v: i128 = Frame::channel(&w1, 0).map(|x| (*x).to_i128()).unwrap_or(-1);
        if w1v != ef {
            return Some(format!("{} full_wave on the bare sample {v} = {w1v}, |signed amplitude| = {ef}", f.name()));
        }
    }
    let _ = (amp(f, v), from_amp(f, 0));
    None
}

fn rect_sweep<S: IntS + Frame<Sample = S>>(ctx: &Ctx, evals: &AtomicU64, thorough: bool)
where
    <S as Sample>::Signed: IntS,
    <S as Frame>::Signed: Frame<Sample = <S as Sample>::Signed>,
    [S; 3]: Frame<Sample = S, Signed = [<S as Sample>::Signed; 3]>,
{
    let bits = S::FMT.bits();
    let dom = if bits <= 24 || (bits == 32 && thorough) {
        Domain::complete(bits)
    } else {
        let mut d = Domain::new(bits);
        d.add_lattice(16, false);
        d.add_boundaries(1 << 14, 256);
        d
    };
    let min = S::FMT.min();
    dom.pieces.par_iter().for_each(|p| {
        let _guard_scope = guard::scoped(&json!({"sys":"rect","fmt":S::FMT.name(),"piece":p.describe()}).to_string());
        let mut n = 0u64;
        let mut bad = None;
        p.for_each(|u| {
            n += 1;
            if bad.is_none() {
                if let Some(m) = rect_single::<S>(min + u as i128) {
                    bad = Some((min + u as i128, m));
                }
            }
        });
        evals.fetch_add(3 * n, Relaxed);
        if let Some((v, m)) = bad {
            ctx.violation(&format!("rect.{}", S::FMT.name()), json!({"sys":"rect","fmt":S::FMT.name(),"v":v.to_string()}), m, Some(&|| rect_single::<S>(v)));
        }
        guard::leave();
    });
    ctx.observe(common::fnv_str(S::FMT.name()));
}

fn rect_float(bits: u32) -> Option<String> {
    let x = f32::from_bits(bits);
    if x.is_nan() {
        return None;
    }
    let fr = [x, -x];
    let w = peak::full_wave(fr);
    let p = peak::positive_half_wave(fr);
    let n = peak::negative_half_wave(fr);
    let ok = w[0] == x.abs() && w[1] == x.abs() && p[0] == x.max(0.0) && p[1] == (-x).max(0.0) && n[0] == x.min(0.0) && n[1] == (-x).min(0.0);
    let xd = x as f64;
    let ok64 = peak::full_wave(xd) == xd.abs() && peak::positive_half_wave(xd) == xd.max(0.0) && peak::negative_half_wave(xd) == xd.min(0.0);
    if !ok || !ok64 {
        return Some(format!("float rectifiers on {x:e}: full {w:?} positive {p:?} negative {n:?}"));
    }
    None
}

// ------------------------------------------------------------ envelope follower
/// a sample type whose amplitude can be read as a real number
trait Amp: Sample + Debug {
    const LSB: f64; // one LSB as amplitude (0 for floats)
    const EPS: f64; // float epsilon (0 for ints)
    fn a(self) -> f64;
}
impl Amp for f32 {
    const LSB: f64 = 0.0;
    const EPS: f64 = f32::EPSILON as f64;
    fn a(self) -> f64 {
        self as f64
    }
}
impl Amp for f64 {
    const LSB: f64 = 0.0;
    const EPS: f64 = f64::EPSILON;
    fn a(self) -> f64 {
        self
    }
}
impl Amp for i16 {
    const LSB: f64 = 1.0 / 32768.0;
    const EPS: f64 = 0.0;
    fn a(self) -> f64 {
        self as f64 / 32768.0
    }
}
impl Amp for i8 {
    const LSB: f64 = 1.0 / 128.0;
    const EPS: f64 = 0.0;
    fn a(self) -> f64 {
        self as f64 / 128.0
    }
}
impl Amp for u8 {
    const LSB: f64 = 1.0 / 128.0;
    const EPS: f64 = 0.0;
    fn a(self) -> f64 {
        (self as f64 - 128.0) / 128.0
    }
}

#[derive(Clone, Copy, Debug, PartialEq)]
enum Act {
    Next(u8),
    Attack(f32),
    Release(f32),
}
// (1e8 frames: exp(-1/t) rounds to exactly 1.0 in f32; infinity: the envelope holds)
const TIMES: [f32; 8] = [0.0, 0.5, 1.0, 2.5, 100.0, 1e6, 1e8, f32::INFINITY];
const SET_TIMES: [f32; 3] = [0.0, 2.5, 1e6];

/// a time constant in a case description (JSON has no infinity)
fn tj(t: f32) -> Value {
    if t.is_finite() {
        json!(t)
    } else {
        json!("inf")
    }
}
fn tp(v: &Value) -> f32 {
    if v == "inf" {
        f32::INFINITY
    } else {
        v.as_f64().unwrap_or(0.0) as f32
    }
}

fn gain_ref(t: f32) -> f64 {
    if t == 0.0 {
        0.0
    } else {
        (-1.0 / t as f64).exp()
    }
}

fn amps<O: Frame>(f: O) -> Vec<f64>
where
    O::Sample: Amp,
{
    f.channels().map(|s| s.a()).collect()
}

/// Run one history on a fresh detector; `shadow` is a second, identically built detect component
/// that supplies the detected value. Returns a fingerprint of the outputs.
fn follow<F, D>(name: &str, alpha: &[F], mk: &dyn Fn() -> D, atk: f32, rel: f32, acts: &[Act]) -> Result<u64, Bad>
where
    F: Frame + Debug,
    D: Detect<F>,
    <D::Output as Frame>::Sample: Amp,
    D::Output: Debug,
{
    type S<O> = <O as Frame>::Sample;
    let mut det = Detector::new(mk(), atk, rel);
    let mut shadow = mk();
    let (mut ta, mut tr) = (atk, rel);
    let mut last: Vec<f64> = amps(<D::Output as Frame>::EQUILIBRIUM);
    let mut fp = 0u64;
    for (step, a) in acts.iter().enumerate() {
        match *a {
            Act::Attack(t) => {
                det.set_attack_frames(t);
                ta = t;
            }
            Act::Release(t) => {
                det.set_release_frames(t);
                tr = t;
            }
            Act::Next(i) => {
                let x = alpha[i as usize];
                let d = amps(shadow.detect(x));
                let out_f = det.next(x);
                let out = amps(out_f);
                for ch in 0..d.len() {
                    let (l, dv, o) = (last[ch], d[ch], out[ch]);
                    let t = if l < dv { ta } else { tr };
                    let g = gain_ref(t);
                    let e = dv + g * (l - dv);
                    let lsb = <S<D::Output> as Amp>::LSB;
                    let eps = <S<D::Output> as Amp>::EPS.max(f32::EPSILON as f64 * if lsb == 0.0 { 1.0 } else { 0.0 });
                    let mag = l.abs().max(dv.abs()).max((l - dv).abs());
                    // gain is an f32 (+-2 ulp of the real exponential), arithmetic in the output format
                    let slack = 1.0001 * lsb + 4.0 * eps * mag + 4.0 * f32::EPSILON as f64 * g * (l - dv).abs() + 1e-300;
                    let tag = || format!("{name} attack {atk} release {rel} history {acts:?}, step {step} channel {ch}: previous envelope {l}, detected {dv}, time constant {t} frames (gain {g})");
                    if !o.is_finite() || (o - e).abs() > slack {
                        return Err(("env.formula".into(), format!("{}: output {o}, detected + gain x (previous - detected) = {e}", tag())));
                    }
                    let between_slack = if lsb > 0.0 { 0.0 } else { 2.0 * eps * mag + 1e-300 };
                    if o < l.min(dv) - between_slack || o > l.max(dv) + between_slack {
                        return Err(("env.overshoot".into(), format!("{}: output {o} is not between the previous envelope and the detected value", tag())));
                    }
                    if t == 0.0 && o != dv {
                        return Err(("env.zero_time".into(), format!("{}: output {o} with a time of 0 frames, expected exactly the detected value", tag())));
                    }
                    fp = common::mix(fp, o.to_bits());
                }
                last = out;
            }
        }
    }
    Ok(fp)
}

/// constant input for 64 steps: monotone convergence toward the detected value
fn converge<F, D>(name: &str, x: F, mk: &dyn Fn() -> D, atk: f32, rel: f32) -> Option<Bad>
where
    F: Frame + Debug,
    D: Detect<F>,
    <D::Output as Frame>::Sample: Amp,
{
    let mut det = Detector::new(mk(), atk, rel);
    let mut shadow = mk();
    let mut prev: Option<Vec<f64>> = None;
    for step in 0..64 {
        let d = amps(shadow.detect(x));
        let o = amps(det.next(x));
        if let Some(p) = &prev {
            for ch in 0..o.len() {
                // the RMS detector's own value still moves while its window fills: only require
                // that the distance to the detected value never grows
                let (dp, dn) = ((p[ch] - d[ch]).abs(), (o[ch] - d[ch]).abs());
                if dn > dp + 4.0 * f32::EPSILON as f64 * d[ch].abs().max(1.0) + if step < 4 { 1.0 } else { 0.0 } {
                    return Some(("env.monotone".into(), format!("{name} attack {atk} release {rel}: constant input {x:?}, step {step} channel {ch}: distance to the detected value grew from {dp} to {dn}")));
                }
            }
        }
        prev = Some(o);
    }
    None
}

struct Family {
    name: &'static str,
    run: Box<dyn Fn(f32, f32, &[Act]) -> Result<u64, Bad> + Sync + Send>,
    conv: Box<dyn Fn(f32, f32) -> Option<Bad> + Sync + Send>,
}

fn families() -> Vec<Family> {
    let mut v: Vec<Family> = Vec::new();
    macro_rules! fam {
        ($name:expr, $F:ty, $alpha:expr, $mk:expr) => {{
            let alpha: Vec<$F> = $alpha;
            let a2 = alpha.clone();
            v.push(Family {
                name: $name,
                run: Box::new(move |atk, rel, acts| match catch(|| follow::<$F, _>($name, &alpha, &$mk, atk, rel, acts)) {
                    Ok(r) => r,
                    // a panic (an overflow check, a debug assertion) where the property promises an output
                    Err(p) => Err(("env.panic".into(), format!("{} attack {atk} release {rel} history {acts:?}: panicked: {p}", $name))),
                }),
                conv: Box::new(move |atk, rel| {
                    for x in &a2 {
                        match catch(|| converge::<$F, _>($name, *x, &$mk, atk, rel)) {
                            Ok(None) => {}
                            Ok(Some(b)) => return Some(b),
                            Err(p) => return Some(("env.panic".into(), format!("{} attack {atk} release {rel}, constant input {x:?}: panicked: {p}", $name))),
                        }
                    }
                    None
                }),
            });
        }};
    }
    let f32a = || vec![0.0f32, 0.25, -0.5, 1.0, -1.0];
    let f64a = || vec![[0.0f64, 0.5], [0.25, -0.25], [-0.5, 1.0], [1.0, 0.0], [-1.0, -0.125]];
    let i16a = || vec![[0i16], [8192], [-16384], [32767], [-32767]];
    let u8a = || vec![[128u8, 200], [160, 128], [64, 255], [255, 1], [1, 100]];
    fam!("f32 peak full-wave", f32, f32a(), || dasp_envelope::detect::Peak::full_wave());
    fam!("f32 peak positive", f32, f32a(), || dasp_envelope::detect::Peak::positive_half_wave());
    fam!("f32 peak negative", f32, f32a(), || dasp_envelope::detect::Peak::negative_half_wave());
    fam!("[f64;2] peak full-wave", [f64; 2], f64a(), || dasp_envelope::detect::Peak::full_wave());
    fam!("[f64;2] peak positive", [f64; 2], f64a(), || dasp_envelope::detect::Peak::positive_half_wave());
    fam!("[f64;2] peak negative", [f64; 2], f64a(), || dasp_envelope::detect::Peak::negative_half_wave());
    fam!("[i16;1] peak full-wave", [i16; 1], i16a(), || dasp_envelope::detect::Peak::full_wave());
    fam!("[i16;1] peak positive", [i16; 1], i16a(), || dasp_envelope::detect::Peak::positive_half_wave());
    fam!("[i16;1] peak negative", [i16; 1], i16a(), || dasp_envelope::detect::Peak::negative_half_wave());
    fam!("[u8;2] peak full-wave", [u8; 2], u8a(), || dasp_envelope::detect::Peak::full_wave());
    fam!("[u8;2] peak positive", [u8; 2], u8a(), || dasp_envelope::detect::Peak::positive_half_wave());
    fam!("[u8;2] peak negative", [u8; 2], u8a(), || dasp_envelope::detect::Peak::negative_half_wave());
    fam!("f32 rms window 1", f32, f32a(), || dasp_rms::Rms::<f32, Vec<f32>>::new(Fixed::from(vec![0.0f32; 1])));
    fam!("f32 rms window 3", f32, f32a(), || dasp_rms::Rms::<f32, Vec<f32>>::new(Fixed::from(vec![0.0f32; 3])));
    fam!("[f64;2] rms window 2", [f64; 2], f64a(), || dasp_rms::Rms::<[f64; 2], Vec<[f64; 2]>>::new(Fixed::from(vec![[0.0f64; 2]; 2])));
    fam!("[i16;1] rms window 2", [i16; 1], i16a(), || dasp_rms::Rms::<[i16; 1], Vec<[f32; 1]>>::new(Fixed::from(vec![[0.0f32; 1]; 2])));
    fam!("[u8;2] rms window 3", [u8; 2], u8a(), || dasp_rms::Rms::<[u8; 2], Vec<[f32; 2]>>::new(Fixed::from(vec![[0.0f32; 2]; 3])));
    // cancellation letters: a loud frame followed by ones whose squares the running sum absorbs;
    // the detected value must stay finite and non-negative, and with it the envelope
    let f32c = || vec![0.0f32, 1.0, 1e-5, -0.3, 1e-9];
    let i16c = || vec![[0i16], [32767], [1], [-1], [100]];
    fam!("f32 rms window 2 (cancellation letters)", f32, f32c(), || dasp_rms::Rms::<f32, Vec<f32>>::new(Fixed::from(vec![0.0f32; 2])));
    fam!("f32 rms window 1 (cancellation letters)", f32, f32c(), || dasp_rms::Rms::<f32, Vec<f32>>::new(Fixed::from(vec![0.0f32; 1])));
    fam!("[i16;1] rms window 2 (cancellation letters)", [i16; 1], i16c(), || dasp_rms::Rms::<[i16; 1], Vec<[f32; 1]>>::new(Fixed::from(vec![[0.0f32; 1]; 2])));
    v
}

fn actions() -> Vec<Act> {
    let mut v: Vec<Act> = (0..5).map(Act::Next).collect();
    for t in SET_TIMES {
        v.push(Act::Attack(t));
    }
    for t in SET_TIMES {
        v.push(Act::Release(t));
    }
    v
}

fn acts_json(a: &[Act]) -> Value {
    json!(a.iter().map(|x| match x {
        Act::Next(i) => format!("next:{i}"),
        Act::Attack(t) => format!("attack:{t}"),
        Act::Release(t) => format!("release:{t}"),
    }).collect::<Vec<_>>())
}
fn acts_parse(v: &Value) -> Vec<Act> {
    v.as_array()
        .map(|a| {
            a.iter()
                .filter_map(|x| {
                    let (h, t) = x.as_str()?.split_once(':')?;
                    Some(match h {
                        "next" => Act::Next(t.parse().ok()?),
                        "attack" => Act::Attack(t.parse().ok()?),
                        _ => Act::Release(t.parse().ok()?),
                    })
                })
                .collect()
        })
        .unwrap_or_default()
}

/// detect_envelope adaptor == detector fed the same frames, one pull per output
fn adaptor_case(atk: f32, rel: f32, idx: &[usize]) -> Option<Bad> {
    let alpha = [[0i16], [8192], [-16384], [32767], [-32767]];
    let frames: Vec<[i16; 1]> = idx.iter().map(|&i| alpha[i]).collect();
    let (p, c) = Probe::new(frames.clone());
    let mut sig = p.detect_envelope(Detector::peak(atk, rel));
    let mut det: Detector<[i16; 1], _> = Detector::peak(atk, rel);
    for (n, f) in frames.iter().enumerate() {
        let (a, b) = (sig.next(), det.next(*f));
        if a != b || c.pulls() != n + 1 {
            return Some(("env.adaptor".into(), format!("detect_envelope attack {atk} release {rel} frames {frames:?}: output {n} = {a:?} (direct detector {b:?}), {} pulls", c.pulls())));
        }
    }
    if !sig.is_exhausted() {
        return Some(("env.adaptor".into(), "detect_envelope does not forward exhaustion".into()));
    }
    None
}

/// every convenience constructor builds the same detector as Detector::new over the same detect
/// component (attack and release in the same order), and the adaptor's setters reach the detector
fn ctor_case(atk: f32, rel: f32, idx: &[usize], set_at: usize, set_attack: bool, t: f32) -> Option<Bad> {
    use dasp_envelope::detect::Peak;
    let alpha = [[0i16, 500], [8192, -8192], [-16384, 3], [32767, -32767], [-32767, 12345]];
    let frames: Vec<[i16; 2]> = idx.iter().map(|&i| alpha[i]).collect();
    macro_rules! same {
        ($name:expr, $a:expr, $b:expr) => {{
            let (mut a, mut b) = ($a, $b);
            for (n, f) in frames.iter().enumerate() {
                if n == set_at {
                    if set_attack {
                        a.set_attack_frames(t);
                        b.set_attack_frames(t);
                    } else {
                        a.set_release_frames(t);
                        b.set_release_frames(t);
                    }
                }
                let (x, y) = (a.next(*f), b.next(*f));
                if x != y {
                    return Some(("env.ctor".into(), format!("{}({atk}, {rel}) on frames {frames:?} (setter at {set_at}): output {n} = {x:?}, Detector::new over the same component gives {y:?}", $name)));
                }
            }
        }};
    }
    same!("Detector::peak", Detector::<[i16; 2], _>::peak(atk, rel), Detector::new(Peak::full_wave(), atk, rel));
    same!("Detector::peak_positive_half_wave", Detector::<[i16; 2], _>::peak_positive_half_wave(atk, rel), Detector::new(Peak::positive_half_wave(), atk, rel));
    same!("Detector::peak_negative_half_wave", Detector::<[i16; 2], _>::peak_negative_half_wave(atk, rel), Detector::new(Peak::negative_half_wave(), atk, rel));
    same!("Detector::peak_from_rectifier(PositiveHalfWave)", Detector::<[i16; 2], _>::peak_from_rectifier(peak::PositiveHalfWave, atk, rel), Detector::new(Peak::positive_half_wave(), atk, rel));
    same!("Detector::peak_from_rectifier(FullWave)", Detector::<[i16; 2], _>::peak_from_rectifier(peak::FullWave, atk, rel), Detector::new(Peak::full_wave(), atk, rel));
    same!("Detector::rms", Detector::<[i16; 2], _>::rms(Fixed::from(vec![[0.0f32; 2]; 3]), atk, rel), Detector::new(dasp_rms::Rms::<[i16; 2], Vec<[f32; 2]>>::new(Fixed::from(vec![[0.0f32; 2]; 3])), atk, rel));
    // the signal adaptor and its setters
    let (p, c) = Probe::new(frames.clone());
    let mut sig = p.detect_envelope(Detector::peak(atk, rel));
    let mut det: Detector<[i16; 2], _> = Detector::new(Peak::full_wave(), atk, rel);
    for (n, f) in frames.iter().enumerate() {
        if n == set_at {
            if set_attack {
                sig.set_attack_frames(t);
                det.set_attack_frames(t);
            } else {
                sig.set_release_frames(t);
                det.set_release_frames(t);
            }
        }
        let (x, y) = (sig.next(), det.next(*f));
        if x != y || c.pulls() != n + 1 {
            return Some(("env.adaptor".into(), format!("detect_envelope({atk}, {rel}) on frames {frames:?} (setter at {set_at}): output {n} = {x:?}, direct detector gives {y:?}; {} pulls", c.pulls())));
        }
    }
    None
}

fn main() {
    let ctx = Ctx::new("C19", "release");
    let fams = families();
    if let Some(v) = ctx.replay_case() {
        let _guard_scope = guard::scoped(&v.to_string());
        let r: Option<String> = match v["sys"].as_str().unwrap_or("") {
            "rect" => {
                let val: i128 = v["v"].as_str().and_then(|s| s.parse().ok()).unwrap_or(0);
                macro_rules! by {
                    ($($n:expr => $T:ty),*) => { match v["fmt"].as_str().unwrap_or("") { $($n => rect_single::<$T>(val),)* _ => Some("unknown format".into()) } };
                }
                by!("i8" => i8, "i16" => i16, "I24" => I24, "i32" => i32, "I48" => I48, "i64" => i64, "u8" => u8, "u16" => u16, "U24" => U24, "u32" => u32, "U48" => U48, "u64" => u64)
            }
            "rect_float" => rect_float(v["bits"].as_u64().unwrap_or(0) as u32),
            "adaptor" => adaptor_case(tp(&v["atk"]), tp(&v["rel"]), &v["idx"].as_array().map(|a| a.iter().map(|x| x.as_u64().unwrap_or(0) as usize).collect::<Vec<_>>()).unwrap_or_default()).map(|e| e.1),
            "converge" => fams.iter().find(|f| Some(f.name) == v["family"].as_str()).and_then(|f| (f.conv)(tp(&v["atk"]), tp(&v["rel"]))).map(|e| e.1),
            _ => fams.iter().find(|f| Some(f.name) == v["family"].as_str()).and_then(|f| catch(|| (f.run)(tp(&v["atk"]), tp(&v["rel"]), &acts_parse(&v["actions"]))).unwrap_or_else(|p| Err(("panic".into(), p))).err()).map(|e| format!("{}: {}", e.0, e.1)),
        };
        ctx.finish_replay(r);
    }
    guard::set_hang_secs(600);
    let thorough = ctx.thorough();
    let evals = AtomicU64::new(0);
    // rectifiers
    macro_rules! rs {
        ($m:ident, $S:ty) => {
            rect_sweep::<$S>(&ctx, &evals, thorough);
        };
    }
    for_int_fmts!(rs);
    let fpat: Vec<u32> = if thorough { (0..=u32::MAX).collect() } else { (0..(1u32 << 21)).map(|p| (p << 11) | if p & 1 == 0 { 0 } else { 0x7ff }).collect() };
    fpat.par_chunks(1 << 18).for_each(|ch| {
        let _guard_scope = guard::scoped(&json!({"sys":"rect_float","bits":ch[0]}).to_string());
        for &b in ch {
            if let Some(m) = rect_float(b) {
                ctx.violation("rect.float", json!({"sys":"rect_float","bits":b}), m, Some(&|| rect_float(b)));
                break;
            }
        }
        evals.fetch_add(6 * ch.len() as u64, Relaxed);
        guard::leave();
    });
    ctx.set("float_patterns", json!(fpat.len()));
    // follower histories
    let depth = ctx.tier.pick(4, 5);
    let acts = actions();
    let mut hist: Vec<Vec<Act>> = vec![vec![]];
    let mut all: Vec<Vec<Act>> = Vec::new();
    for _ in 0..depth {
        let mut nxt = Vec::new();
        for h in &hist {
            for a in &acts {
                let mut h2 = h.clone();
                h2.push(*a);
                nxt.push(h2);
            }
        }
        hist = nxt;
    }
    // only maximal histories are run (every prefix is checked on the way); those ending in a setter add nothing
    for h in hist {
        if matches!(h.last(), Some(Act::Next(_))) {
            all.push(h);
        }
    }
    ctx.set("follower_histories_per_configuration", json!(all.len()));
    let mut configs = Vec::new();
    for (fi, _) in fams.iter().enumerate() {
        for &atk in &TIMES {
            for &rel in &TIMES {
                configs.push((fi, atk, rel));
            }
        }
    }
    ctx.set("follower_configurations", json!(configs.len()));
    configs.par_iter().for_each(|&(fi, atk, rel)| {
        let f = &fams[fi];
        let mut fps = Vec::new();
        for (hi, h) in all.iter().enumerate() {
            if hi % 512 == 0 {
                let _guard_scope = guard::scoped(&json!({"sys":"follow","family":f.name,"atk":tj(atk),"rel":tj(rel),"actions":acts_json(h)}).to_string());
            }
            match catch(|| (f.run)(atk, rel, h)) {
                Ok(Ok(fp)) => {
                    if fps.len() < 256 {
                        fps.push(common::mix(common::fnv_str(f.name), fp ^ hi as u64));
                    }
                }
                Ok(Err((k, m))) => {
                    let case = json!({"sys":"follow","family":f.name,"atk":tj(atk),"rel":tj(rel),"actions":acts_json(h)});
                    ctx.violation(&k, case, m, Some(&|| (f.run)(atk, rel, h).err().map(|e| e.1)));
                    break;
                }
                Err(p) => {
                    ctx.violation("env.panic", json!({"sys":"follow","family":f.name,"atk":tj(atk),"rel":tj(rel),"actions":acts_json(h)}), format!("{}: panicked: {p}", f.name), None);
                    break;
                }
            }
        }
        evals.fetch_add((all.len() * depth) as u64, Relaxed);
        if let Some((k, m)) = (f.conv)(atk, rel) {
            ctx.violation(&k, json!({"sys":"converge","family":f.name,"atk":tj(atk),"rel":tj(rel)}), m, None);
        }
        ctx.observe_many(fps);
        guard::leave();
    });
    // soak probes: one long deterministic history per family
    let soak_n = ctx.tier.pick(3_000usize, 30_000);
    let soak: Vec<Act> = (0..soak_n)
        .map(|t| match t % 41 {
            17 => Act::Attack(SET_TIMES[(t / 41) % 3]),
            33 => Act::Release(SET_TIMES[(t / 41 + 1) % 3]),
            _ => Act::Next(((t * 3 + t / 7) % 5) as u8),
        })
        .collect();
    fams.par_iter().for_each(|f| {
        let _guard_scope = guard::scoped(&json!({"sys":"follow_soak","family":f.name,"steps":soak_n}).to_string());
        if let Err((k, m)) = (f.run)(2.5, 100.0, &soak) {
            let short: String = m.chars().rev().take(300).collect::<String>().chars().rev().collect();
            ctx.violation(&k, json!({"sys":"follow_soak","family":f.name,"steps":soak_n}), format!("{}: soak history of {soak_n} steps: ...{short}", f.name), None);
        }
        evals.fetch_add(soak_n as u64, Relaxed);
        guard::leave();
    });
    // time-constant sweep: the gain must be exp(-1/t) for EVERY time, not only the eight above --
    // every whole number of frames to 4096 (thorough 65537), quarter steps to 1024, audio-typical
    // times (milliseconds at 44.1/48/96/192 kHz); per time: attack and release steps with the
    // time given at construction, and the same with the time given by the setters afterwards
    let mut sweep: Vec<f32> = (1..=ctx.tier.pick(4096u32, 65537)).map(|k| k as f32).collect();
    sweep.extend((1..4096u32).filter(|k| k % 4 != 0).map(|k| k as f32 / 4.0));
    for rate in [44100.0f32, 48000.0, 96000.0, 192000.0] {
        for ms in [0.1f32, 0.5, 1.0, 3.0, 5.0, 10.0, 30.0, 50.0, 100.0, 300.0, 1000.0, 3000.0] {
            sweep.push(rate * ms / 1000.0);
        }
    }
    ctx.set("time_constant_sweep", json!(sweep.len()));
    let sweep_fams: Vec<&Family> = fams.iter().filter(|f| ["f32 peak full-wave", "[f64;2] peak full-wave", "[i16;1] peak full-wave", "[f64;2] rms window 2"].contains(&f.name)).collect();
    sweep.par_iter().for_each(|&t| {
        for f in &sweep_fams {
            let direct = [Act::Next(3), Act::Next(3), Act::Next(1), Act::Next(0), Act::Next(4), Act::Next(2)];
            let by_setter = [Act::Next(3), Act::Attack(t), Act::Release(t), Act::Next(1), Act::Next(3), Act::Next(0), Act::Next(4)];
            for (atk, rel, h) in [(t, t, &direct[..]), (t, 0.5, &direct[..]), (1.0, t, &direct[..]), (0.5, 1e6, &by_setter[..])] {
                let case = json!({"sys":"follow","family":f.name,"atk":tj(atk),"rel":tj(rel),"actions":acts_json(h)});
                let _guard_scope = guard::scoped(&case.to_string());
                if let Err((k, m)) = (f.run)(atk, rel, h) {
                    ctx.violation(&k, case, m, Some(&|| (f.run)(atk, rel, h).err().map(|e| e.1)));
                }
                evals.fetch_add(h.len() as u64, Relaxed);
            }
        }
        guard::leave();
    });
    // adaptor
    for &atk in &TIMES {
        for &rel in &TIMES {
            for code in 0..125usize {
                let idx: Vec<usize> = (0..3).map(|j| (code / 5usize.pow(j)) % 5).collect();
                evals.fetch_add(1, Relaxed);
                let case = json!({"sys":"adaptor","atk":tj(atk),"rel":tj(rel),"idx":idx});
                let _guard_scope = guard::scoped(&case.to_string());
                match catch(|| adaptor_case(atk, rel, &idx)) {
                    Ok(None) => {}
                    Ok(Some((k, m))) => ctx.violation(&k, case, m, None),
                    Err(p) => ctx.violation("env.panic", case, format!("detect_envelope adaptor, attack {atk} release {rel}, input letters {idx:?}: panicked: {p}"), None),
                }
            }
        }
    }
    // constructors and adaptor setters: every (attack, release) pair x every 3-frame input x setter position x kind x value
    let mut ctor_n = 0u64;
    for &atk in &TIMES {
        for &rel in &TIMES {
            for code in 0..125usize {
                let idx: Vec<usize> = (0..3).map(|j| (code / 5usize.pow(j)) % 5).collect();
                for set_at in 0..4usize {
                    for (set_attack, t) in [(true, 0.0f32), (true, 2.5), (false, 0.0), (false, 100.0)] {
                        ctor_n += 1;
                        let case = json!({"sys":"ctor","atk":tj(atk),"rel":tj(rel),"idx":idx,"set_at":set_at,"set_attack":set_attack,"t":t});
                        let _guard_scope = guard::scoped(&case.to_string());
                        match catch(|| ctor_case(atk, rel, &idx, set_at, set_attack, t)) {
                            Ok(None) => {}
                            Ok(Some((k, m))) => ctx.violation(&k, case, m, None),
                            Err(p) => ctx.violation("env.panic", case, format!("constructor / setter case, attack {atk} release {rel}: panicked: {p}"), None),
                        }
                    }
                }
            }
        }
    }
    evals.fetch_add(ctor_n, Relaxed);
    ctx.set("constructor_cases", json!(ctor_n));
    ctx.add_evals(evals.load(Relaxed));
    ctx.set("exhaustive", json!(false));
    ctx.set("exhaustive_scope", json!("rectifiers: every value of the <=24-bit integer formats (thorough: <=32-bit and every f32), lattice above; follower: every history over the finite action alphabet to the stated depth"));
    ctx.rule(&format!("rectifiers: full_wave / positive_half_wave / negative_half_wave (functions and Rectifier structs, bare samples and 3-channel frames) over every value of i8 u8 i16 u16 I24 U24 (thorough: i32 u32 too), lattice for wider formats, f32 patterns (thorough: all) and their f64 widening; oracle |signed amplitude| (the value whose negation is unrepresentable excluded) and clamp to the upper / lower side of equilibrium; follower: 20 detector families (peak x 3 rectifiers and RMS windows 1..3 over f32, [f64;2], [i16;1], [u8;2], plus three RMS families over cancellation letters such as 1.0, 1e-5, 1e-9 / 32767, 1) x attack, release in {{0,0.5,1,2.5,100,1e6,1e8,inf}}^2 x every history of length {depth} over {{next(5 letters), set_attack(3), set_release(3)}}; per step from the OBSERVED previous output l and the detected value d (second instance of the real detect component): out == d + g(l-d) with g = exp(-1/t) (attack iff l<d) within 1 LSB / 4 ulp + 4 ulp(f32) of the gain, between l and d, == d when t = 0; constant input: the distance to the detected value never grows; soak probes: one deterministic history of 3000 (thorough 30000) steps per family; time-constant sweep: every whole number of frames 1..4096 (thorough 65537), quarter steps below 1024 and 48 audio-typical times (0.1 ms .. 3 s at 44.1/48/96/192 kHz) x 4 families x 4 ways of giving the time (constructor attack / release, setters) x a 6-step attack-and-release history, same per-step oracle; detect_envelope adaptor (incl. its setters) == direct detector, one pull per output; Detector::peak / peak_positive_half_wave / peak_negative_half_wave / peak_from_rectifier / rms == Detector::new over the same component for every (attack, release) pair, 3-frame input and setter position"));
    ctx.sample(json!({"sys":"follow","family":"[u8;2] peak negative","atk":2.5,"rel":0.0,"actions":["next:2","attack:0","next:4","next:1"]}));
    ctx.sample(json!({"sys":"rect","fmt":"U24","v":"8388607"}));
    ctx.assume("integer input alphabets of the follower exclude the format's minimum: the follower negates the detected value and forms l - d, which is representable for every other amplitude");
    ctx.assume("the detected value is taken from a second instance of the real rectifier / RMS component (checked by the rectifier sweeps and by C11)");
    ctx.finish();
}
