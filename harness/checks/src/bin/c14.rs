//! C14 — Buffered: from every capacity x prefill (start,len) x source length,
//! every history of next() / next_frames().take(k) / is_exhausted() to a
//! bounded depth (unmerged), a merged stateright run to fixpoint, and
//! until_exhausted() from every initial state.

use checks::probe::Probe;
use common::{catch, guard, json, Ctx, Value};
use dasp_ring_buffer::Bounded;
use dasp_signal::Signal;
use rayon::prelude::*;
use stateright::{Checker, Model, Property};
use std::hash::{Hash, Hasher};
use std::sync::atomic::{AtomicU64, Ordering::Relaxed};

#[derive(Clone, Copy, Debug, PartialEq, Eq, Hash)]
enum Act {
    Next,
    Frames(u32), // next_frames().take(k), k = cap+1 observes the None
    Exhausted,
    Clone, // the adaptor is replaced by its clone (which has seen the same frames)
}
impl Act {
    fn name(self) -> String {
        match self {
            Act::Next => "next".into(),
            Act::Frames(k) => format!("next_frames:{k}"),
            Act::Exhausted => "is_exhausted".into(),
            Act::Clone => "clone".into(),
        }
    }
    fn parse(s: &str) -> Option<Act> {
        Some(match s {
            "next" => Act::Next,
            "is_exhausted" => Act::Exhausted,
            "clone" => Act::Clone,
            _ => Act::Frames(s.strip_prefix("next_frames:")?.parse().ok()?),
        })
    }
}

#[derive(Clone, Copy, Debug, PartialEq, Eq, Hash)]
struct Init {
    cap: u32,
    start: u32,
    len: u32,
    src: u32,
}

type Bad = (String, String);

/// stream position -> expected frame: prefill (coded 100+i), then the source
/// (coded 1+i), then equilibrium
fn stream(i: &Init, pos: usize) -> f64 {
    stream_src(i, pos, i.src as usize)
}

fn stream_src(i: &Init, pos: usize, s: usize) -> f64 {
    let l = i.len as usize;
    if pos < l {
        100.0 + pos as f64
    } else if pos < l + s {
        1.0 + (pos - l) as f64
    } else {
        0.0
    }
}

/// Replay on a fresh Buffered; returns (ring start, ring len, pulled, delivered).
fn run_history(i: &Init, acts: &[Act], check_from: usize) -> Result<(usize, usize, usize, usize), Bad> {
    run_history_src(i, acts, check_from, i.src as usize)
}

/// as run_history, with an explicit source length (the soak probes need more than 255 frames)
fn run_history_src(i: &Init, acts: &[Act], check_from: usize, src_len: usize) -> Result<(usize, usize, usize, usize), Bad> {
    // a panic anywhere in the adaptor under test (an overflow check, a debug assertion) is a violation
    match common::catch(|| run_history_src_inner(i, acts, check_from, src_len)) {
        Ok(r) => r,
        Err(p) => Err(("buffered.panic".into(), format!("{i:?}, history of {} actions: panicked: {p}", acts.len()))),
    }
}

fn run_history_src_inner(i: &Init, acts: &[Act], check_from: usize, src_len: usize) -> Result<(usize, usize, usize, usize), Bad> {
    let cap = i.cap as usize;
    let mut data = vec![-7.0f64; cap];
    for k in 0..i.len as usize {
        data[(i.start as usize + k) % cap] = 100.0 + k as f64;
    }
    // the pre-filled state is produced the way a user would top a buffer up: all but the newest
    // pre-fill frame by construction, the newest one through Extend (same logical state)
    let ring = if i.len >= 1 {
        let last = data[(i.start as usize + i.len as usize - 1) % cap];
        data[(i.start as usize + i.len as usize - 1) % cap] = -7.0;
        let mut r = Bounded::from_raw_parts(i.start as usize, i.len as usize - 1, data);
        r.extend(Some(last));
        r
    } else {
        Bounded::from_raw_parts(i.start as usize, 0, data)
    };
    let (probe, c) = Probe::new((0..src_len).map(|n| 1.0 + n as f64).collect());
    let mut b = probe.buffered(ring);
    // an older copy (a different state by the time it is used): the target of clone_from
    let mut older = Some(b.clone());
    let mut ring_len = i.len as usize;
    let mut pulled = 0usize;
    let mut delivered = 0usize;
    for (step, &a) in acts.iter().enumerate() {
        let chk = step >= check_from;
        let tag = || format!("cap={} prefill(start={},len={}) source={} history {:?}, step {step} = {}", i.cap, i.start, i.len, i.src, acts.iter().map(|a| a.name()).collect::<Vec<_>>(), a.name());
        match a {
            Act::Next => {
                if ring_len == 0 {
                    pulled += cap;
                    ring_len = cap;
                }
                // stream positions: prefill, then everything pulled from the source (incl. equilibrium padding)
                let exp = stream_src(i, delivered, src_len);
                let f = b.next();
                ring_len -= 1;
                delivered += 1;
                if chk && f != exp {
                    return Err(("buffered.stream".into(), format!("{}: got {f}, expected stream position {} = {exp}", tag(), delivered - 1)));
                }
            }
            Act::Frames(k) => {
                if ring_len == 0 {
                    pulled += cap;
                    ring_len = cap;
                }
                let mut it = b.next_frames();
                for j in 0..k as usize {
                    let got = it.next();
                    let exp = if ring_len > 0 { Some(stream_src(i, delivered, src_len)) } else { None };
                    if exp.is_some() {
                        ring_len -= 1;
                        delivered += 1;
                    }
                    if chk && got != exp {
                        return Err(("buffered.frames".into(), format!("{}: item {j} of the batch = {got:?}, expected {exp:?}", tag())));
                    }
                }
            }
            Act::Clone => {
                // alternately through clone() and through clone_from() into a copy with another state
                let c2 = if step % 2 == 0 {
                    b.clone()
                } else {
                    let mut t = older.take().unwrap_or_else(|| b.clone());
                    t.clone_from(&b);
                    t
                };
                older = Some(b.clone());
                b = c2;
            }
            Act::Exhausted => {
                let e = b.is_exhausted();
                let exp = ring_len == 0 && pulled >= src_len;
                if chk && e != exp {
                    return Err(("buffered.exhausted".into(), format!("{}: is_exhausted() = {e}, expected {exp} ({ring_len} frames buffered, {pulled} of {} source frames pulled)", tag(), i.src)));
                }
            }
        }
        if chk && c.pulls() != pulled {
            return Err(("buffered.pulls".into(), format!("{}: the source was pulled {} times, expected {pulled} (one buffer of {cap} per refill, none otherwise)", tag(), c.pulls())));
        }
    }
    let (_, ring) = b.into_parts();
    let (s, l, _) = unsafe { ring.into_raw_parts() };
    if l != ring_len {
        return Err(("buffered.ring".into(), format!("cap={} history {:?}: ring holds {l} frames, reference {ring_len}", i.cap, acts.iter().map(|a| a.name()).collect::<Vec<_>>())));
    }
    Ok((s, l, pulled, delivered))
}

fn drain_case(i: &Init) -> Option<Bad> {
    match catch(|| drain_case_inner(i)) {
        Ok(r) => r,
        Err(p) => Some(("buffered.panic".into(), format!("{i:?} drained through until_exhausted(): panicked: {p}"))),
    }
}

fn drain_case_inner(i: &Init) -> Option<Bad> {
    let cap = i.cap as usize;
    let mut data = vec![-7.0f64; cap];
    for k in 0..i.len as usize {
        data[(i.start as usize + k) % cap] = 100.0 + k as f64;
    }
    let ring = Bounded::from_raw_parts(i.start as usize, i.len as usize, data);
    let (probe, _c) = Probe::new((0..i.src as usize).map(|n| 1.0 + n as f64).collect());
    let got: Vec<f64> = probe.buffered(ring).until_exhausted().take(200).collect();
    let (l, s) = (i.len as usize, i.src as usize);
    let n = l + cap * ((s + cap - 1) / cap);
    let exp: Vec<f64> = (0..n).map(|p| stream(i, p)).collect();
    if got != exp {
        return Some(("buffered.drain".into(), format!("cap={cap} prefill(start={},len={l}) source={s}: until_exhausted() yielded {} frames {got:?}, expected prefill ++ source ++ {} padding frames: {exp:?}", i.start, got.len(), n - l - s)));
    }
    None
}

fn alphabet(cap: u32) -> Vec<Act> {
    let mut v = vec![Act::Next, Act::Exhausted, Act::Clone];
    for k in 0..=cap + 1 {
        // large capacities (scale probes): batch sizes at structured values only
        if cap <= 5 || k <= 1 || k + 1 >= cap {
            v.push(Act::Frames(k));
        }
    }
    v
}

fn case_json(i: &Init, acts: &[Act]) -> Value {
    json!({"sys":"buffered","cap":i.cap,"start":i.start,"len":i.len,"src":i.src,"actions":acts.iter().map(|a| a.name()).collect::<Vec<_>>()})
}

fn dfs(ctx: &Ctx, i: &Init, prefix: &mut Vec<Act>, depth: usize, alpha: &[Act], counts: &mut (u64, u64)) {
    if depth == 0 {
        return;
    }
    for &a in alpha {
        prefix.push(a);
        counts.0 += 1;
        counts.1 += prefix.len() as u64;
        match run_history(i, prefix, prefix.len() - 1) {
            Ok(_) => dfs(ctx, i, prefix, depth - 1, alpha, counts),
            Err((k, m)) => {
                let p2 = prefix.clone();
                let i2 = *i;
                ctx.violation(&k, case_json(i, prefix), m, Some(&move || run_history(&i2, &p2, 0).err().map(|e| e.1)));
            }
        }
        prefix.pop();
    }
}

// ------------------------------------------------------------------- merged
#[derive(Clone, Debug)]
struct St {
    key: (usize, usize, usize, usize),
    witness: Vec<Act>,
    bad: bool,
}
impl PartialEq for St {
    fn eq(&self, o: &St) -> bool {
        self.key == o.key && self.bad == o.bad
    }
}
impl Eq for St {}
impl Hash for St {
    fn hash<H: Hasher>(&self, h: &mut H) {
        self.key.hash(h);
        self.bad.hash(h);
    }
}
struct BufModel {
    ctx: &'static Ctx,
    init: Init,
}
static TRANS: AtomicU64 = AtomicU64::new(0);

impl Model for BufModel {
    type State = St;
    type Action = Act;
    fn init_states(&self) -> Vec<St> {
        vec![St { key: (self.init.start as usize, self.init.len as usize, 0, 0), witness: vec![], bad: false }]
    }
    fn actions(&self, s: &St, out: &mut Vec<Act>) {
        // horizon: two refills past the end of the source
        if s.bad || s.key.2 > self.init.src as usize + 2 * self.init.cap as usize {
            return;
        }
        out.extend(alphabet(self.init.cap));
    }
    fn next_state(&self, s: &St, a: Act) -> Option<St> {
        let mut acts = s.witness.clone();
        acts.push(a);
        let case = case_json(&self.init, &acts);
        let _guard_scope = guard::scoped(&case.to_string());
        TRANS.fetch_add(1, Relaxed);
        match run_history(&self.init, &acts, acts.len() - 1) {
            Ok(key) => Some(St { key, witness: acts, bad: false }),
            Err((k, m)) => {
                let (i2, a2) = (self.init, acts.clone());
                self.ctx.violation(&k, case, m, Some(&move || run_history(&i2, &a2, 0).err().map(|e| e.1)));
                Some(St { key: s.key, witness: acts, bad: true })
            }
        }
    }
    fn properties(&self) -> Vec<Property<Self>> {
        vec![Property::always("buffered is a transparent prefetch", |_, s: &St| !s.bad)]
    }
}

fn main() {
    let _final_guard = common::FinalGuard::new();
    let ctx: &'static Ctx = Ctx::leak("C14", "release");
    if let Some(v) = ctx.replay_case() {
        let _guard_scope = guard::scoped(&v.to_string());
        let i = Init { cap: v["cap"].as_u64().unwrap_or(1) as u32, start: v["start"].as_u64().unwrap_or(0) as u32, len: v["len"].as_u64().unwrap_or(0) as u32, src: v["src"].as_u64().unwrap_or(0) as u32 };
        if v["sys"] == "buffered_drain" {
            ctx.finish_replay(catch(|| drain_case(&i)).unwrap_or_else(|p| Some(("panic".into(), p))).map(|e| e.1));
        }
        let acts: Vec<Act> = v["actions"].as_array().map(|a| a.iter().filter_map(|x| Act::parse(x.as_str()?)).collect()).unwrap_or_default();
        let src_len = v["src_len"].as_u64().map(|x| x as usize).unwrap_or(i.src as usize);
        ctx.finish_replay(match catch(|| run_history_src(&i, &acts, 0, src_len)) {
            Ok(Ok(_)) => None,
            Ok(Err(e)) => Some(format!("{}: {}", e.0, e.1)),
            Err(p) => Some(format!("panic: {p}")),
        });
    }
    let depth = ctx.tier.pick(5, 7);
    let mut inits = Vec::new();
    for cap in 1..=ctx.tier.pick(4u32, 5u32) {
        for start in 0..cap {
            for len in 0..=cap {
                for src in 0..=2 * cap + 1 {
                    inits.push(Init { cap, start, len, src });
                }
            }
        }
    }
    // scale probes (merged run only): capacities 8 and 16 from structured initial states
    let mut big_inits = Vec::new();
    for cap in [8u32, 16] {
        for start in [0, cap - 1] {
            for len in [0, 1, cap - 1, cap] {
                for src in [0, 1, cap - 1, cap, cap + 1, 2 * cap + 1] {
                    big_inits.push(Init { cap, start, len, src });
                }
            }
        }
    }
    ctx.rule(&format!("initial states: capacity 1..=4 (thorough 1..=5) x every prefill (start,len; the newest pre-fill frame added through Extend) x source length 0..=2cap+1 ({} states); actions next(), next_frames().take(k) for k in 0..=cap+1 (k=cap+1 observes the None), is_exhausted(), clone() (the adaptor is replaced by its clone, which must go on exactly where the original stood); unmerged: every history to depth {depth} replayed on a fresh Buffered over an instrumented source; merged: stateright BFS to fixpoint on (ring start, ring len, pulled, delivered) through witness replay, horizon two refills past the source's end; oracle: delivered stream == prefill ++ source ++ equilibrium, source pulled exactly `capacity` times when an operation finds the ring empty and never otherwise, is_exhausted == (ring empty and source exhausted), until_exhausted() from every initial state == prefill ++ source ++ pad with pad < capacity; scale probes (merged run and drain only): capacities 8 and 16 from structured (start, len, source length) states with batch sizes 0,1,cap-1,cap,cap+1; distinct by (initial state, history)", inits.len()));
    guard::set_hang_secs(300);
    let tot: Vec<(u64, u64)> = inits
        .par_iter()
        .map(|i| {
            let mut counts = (0u64, 0u64);
            let _guard_scope = guard::scoped(&case_json(i, &[]).to_string());
            if let Some((k, m)) = drain_case(i) {
                let mut cj = case_json(i, &[]);
                cj["sys"] = json!("buffered_drain");
                let i2 = *i;
                ctx.violation(&k, cj, m, Some(&move || drain_case(&i2).map(|e| e.1)));
            }
            dfs(ctx, i, &mut Vec::new(), depth, &alphabet(i.cap), &mut counts);
            ctx.observe(common::fnv_str(&format!("{i:?}")));
            guard::leave();
            counts
        })
        .collect();
    let hist: u64 = tot.iter().map(|t| t.0).sum();
    let steps: u64 = tot.iter().map(|t| t.1).sum();
    ctx.add_distinct_counted(hist.min(1 << 40) - inits.len() as u64);
    let all_merged: Vec<Init> = inits.iter().chain(big_inits.iter()).copied().collect();
    for i in &big_inits {
        if let Some((k, m)) = drain_case(i) {
            ctx.violation(&k, case_json(i, &[]), m, None);
        }
    }
    let res: Vec<(usize, usize)> = all_merged
        .par_iter()
        .map(|i| {
            let c = BufModel { ctx, init: *i }.checker().threads(1).spawn_bfs().join();
            (c.unique_state_count(), c.max_depth())
        })
        .collect();
    let uniq: usize = res.iter().map(|r| r.0).sum();
    // big-capacity probes: every residual fill level r of a large ring, short structured histories
    let mut big_hist = 0u64;
    for cap in [32u32, 33, 48, 64, 65, 96, 128, 255] {
        for r in 0..=cap {
            let i = Init { cap, start: cap - 1, len: r, src: 0 };
            for pre in [0usize, 1, 2] {
                for k in [0u32, 1, 2, 3, cap] {
                    let mut acts = vec![Act::Next; pre];
                    acts.extend([Act::Frames(k), Act::Next, Act::Exhausted, Act::Frames(1), Act::Exhausted]);
                    big_hist += 1;
                    if let Err((key, m)) = run_history_src(&i, &acts, 0, 3 * cap as usize + 7) {
                        let mut cj = case_json(&i, &acts);
                        cj["src_len"] = json!(3 * cap as usize + 7);
                        ctx.violation(&key, cj, m, None);
                    }
                }
            }
        }
    }
    ctx.add_evals(big_hist);
    ctx.set("big_capacity_histories", json!(big_hist));
    ctx.rule("big-capacity probes: capacities 32, 33, 48, 64, 65, 96, 128, 255 x every residual fill level 0..=cap x 0..2 leading next() calls x a batch of 0,1,2,3 or cap frames, then next / is_exhausted / a batch of 1: same stream, pull and exhaustion oracle");
    // 16-bit boundary probes: capacities around 2^16, structured fill levels and start offsets
    let mut cases16: Vec<(Init, Vec<Act>)> = Vec::new();
    for cap in [512u32, 1024, 4096, 44100, 48000, 65535, 65536, 65537] {
        for r in [0u32, 1, 2, cap / 2, cap - 2, cap - 1, cap] {
            for start in [0u32, 1, 255, 256, cap / 2, cap - 1] {
                let i = Init { cap, start, len: r, src: 0 };
                for pre in [0usize, 1, 2] {
                    for k in [0u32, 1, 257, cap - 1, cap, cap + 1] {
                        let mut acts = vec![Act::Next; pre];
                        acts.extend([Act::Frames(k), Act::Next, Act::Exhausted, Act::Frames(1), Act::Exhausted, Act::Frames(cap + 1), Act::Next]);
                        cases16.push((i, acts));
                    }
                }
            }
        }
    }
    let n16 = cases16.len() as u64;
    cases16.par_iter().for_each(|(i, acts)| {
        let mut cj = case_json(i, acts);
        cj["src_len"] = json!(3 * i.cap as usize + 7);
        let _guard_scope = guard::scoped(&cj.to_string());
        if let Err((key, m)) = run_history_src(i, acts, 0, 3 * i.cap as usize + 7) {
            ctx.violation(&key, cj, m, None);
        }
    });
    ctx.add_evals(n16);
    ctx.set("sixteen_bit_capacity_histories", json!(n16));
    ctx.rule("16-bit boundary and audio-typical capacities 512, 1024, 4096, 44100, 48000, 65535, 65536, 65537 x residual fill level in {0, 1, 2, cap/2, cap-2, cap-1, cap} x start offset in {0, 1, 255, 256, cap/2, cap-1} x 0..2 leading next() calls x a batch of 0, 1, 257, cap-1, cap or cap+1 frames, then next / is_exhausted / a batch of 1 / a full batch: same stream, pull and exhaustion oracle");
    // soak probes: one long deterministic history per capacity on a single Buffered over a long source
    let soak_steps = ctx.tier.pick(20_000usize, 200_000);
    for cap in [1u32, 2, 3, 5, 8, 48, 64] {
        let i = Init { cap, start: cap - 1, len: cap / 2, src: 0 };
        let _guard_scope = guard::scoped(&json!({"sys":"buffered_soak","cap":cap,"steps":soak_steps}).to_string());
        let alpha = alphabet(cap);
        let acts: Vec<Act> = (0..soak_steps).map(|t| if t % 4 == 3 { alpha[(t * 5 + t / 9) % alpha.len()] } else { Act::Next }).collect();
        ctx.add_evals(soak_steps as u64);
        if let Err((k, m)) = run_history_src(&i, &acts, 0, soak_steps * 2) {
            let short: String = m.chars().rev().take(300).collect::<String>().chars().rev().collect();
            ctx.violation(&k, json!({"sys":"buffered_soak","cap":cap,"steps":soak_steps}), format!("soak history of {soak_steps} steps, capacity {cap}: ...{short}"), None);
        }
    }
    ctx.rule(&format!("soak probes: one deterministic history of {soak_steps} operations (next() interleaved with the whole alphabet) per capacity in 1,2,3,5,8,64 on a single Buffered over a source longer than the run (single executions, labelled)"));
    ctx.set("initial_states", json!(inits.len()));
    ctx.set("unmerged_histories", json!(hist));
    ctx.set("unmerged_steps_executed", json!(steps));
    ctx.set("unmerged_depth", json!(depth));
    ctx.set("merged_unique_states", json!(uniq));
    ctx.set("merged_max_depth", json!(res.iter().map(|r| r.1).max()));
    ctx.add_states(uniq as u64 + hist);
    ctx.add_transitions(TRANS.load(Relaxed) + steps);
    ctx.add_evals(hist + TRANS.load(Relaxed) + inits.len() as u64);
    ctx.set("exhaustive", json!(true));
    ctx.set("exhaustive_scope", json!(format!("capacities 1..=4, every prefill and start offset, sources of 0..=2cap+1 frames; histories to depth {depth} unmerged, to fixpoint (within the horizon) merged")));
    ctx.sample(case_json(&Init { cap: 3, start: 2, len: 2, src: 4 }, &[Act::Frames(1), Act::Next, Act::Exhausted, Act::Frames(4), Act::Next]));
    ctx.assume("merged run only: Buffered's behaviour is a function of (ring start, ring len, source position); the unmerged run assumes nothing");
    ctx.finish();
}
