#!/usr/bin/env python3
"""Generate /verif/MANIFEST.json from the table below (kept in one place so the
manifest stays valid while checks are added)."""
import json, os, subprocess
ROOT = os.path.dirname(os.path.dirname(os.path.abspath(__file__)))

E1 = "E1 explicit-state exploration of the real objects (stateright BFS on canonical raw states + unmerged DFS over operation histories)"
E2 = "E2 exhaustive domain / configuration / program enumeration on the real code against a Rust reference model"

# id -> (built?, engine, technique, level text, level note, design ref)
T = {
 "C06": (True, "E1", "explicit-state model checking (stateright BFS to fixpoint from every raw state) + bounded-exhaustive DFS over operation histories, on the real ring buffers vs a VecDeque reference; the alphabet includes extend from an iterator that panics after k items (caught): the buffer must stay a valid queue",
         "Every valid raw state (start,len)/first of capacities 1..6 (quick) / 1..12 (thorough) x every operation of the alphabet is executed on the real Bounded/Fixed buffer (window-with-canaries, Vec, Box, array storage) and compared with a VecDeque reference; successor states are re-extracted with into_raw_parts and the search runs to fixpoint, so histories of any length over those capacities are covered. A second, unmerged DFS replays every history to depth 5/6 without any state abstraction.",
         "Capacities above 12 are not explored (no capacity-specific branch in the code, but that is an argument, not a check). Trusted: rustc/LLVM, VecDeque, stateright BFS, data independence of the buffers for the merged run.", "DESIGN.md §4 C06"),
 "C10": (True, "E2", "bounded-exhaustive enumeration of (format, channel count N, length L) and length pairs on the real slice-view functions, with a counting allocator as observer; in-place additions for all 12 integer formats against independent arithmetic",
         "For all 14 sample formats x N=1..32 x L=0..3N+2 the shared, mutable and boxed views are executed and compared with index arithmetic, pointer identity and live-heap accounting; in-place slice ops for every length pair up to 5 over 6 frame types (panic-before-modify on mismatch).",
         "L is bounded by 3N+2 (the code has no length-specific branch other than the divisibility test). Trusted: rustc/LLVM, the counting allocator (self-tested at start-up).", "DESIGN.md §4 C10"),
 "C11": (True, "E1", "explicit-state model checking (stateright BFS to fixpoint over detector states, witness-history replay on the real Rms) in std and no_std builds + bounded-exhaustive DFS over non-dyadic histories + exhaustive short histories over structured values for all 14 sample formats",
         "All reachable (first, window, running-sum) states of the real Rms detector over exact dyadic alphabets, window N=1..3 (quick) / 1..4 (thorough), five frame formats, both build configurations; every next/next_squared/current/reset from every state against the exact mean of the last N squares and exact internal-state invariants. Non-dyadic inputs: every history (with reset as an action) to depth 2N+2 plus labelled long runs; sample_sqrt over every non-negative finite f32 (thorough) in both builds; the signal adaptor in the std build.",
         "Inputs outside the alphabets are covered only to depth 2N+2 and by single long runs. Trusted: libm sqrt (std), f64 recomputation as reference, stateright BFS.", "DESIGN.md §4 C11"),
 "C15": (True, "E2", "exhaustive enumeration of operand pairs (all 2048^2 for the 11-bit types, boundary lattice squared for wider types) on the real operators in all four (debug-assertions, overflow-checks) build profiles against i128 modular arithmetic",
         "Every operand pair of I11/U11 and every i16 for construction; documented boundary lattices for 20/24/48-bit types; all 35 widening From impls over their complete source domains; run in four profiles: release and release+overflow-checks (wrap expected), debug-assertions with and without overflow checks (panic expected).",
         "20/24/48-bit operand spaces are covered on a lattice, not completely. Trusted: rustc/LLVM, i128 arithmetic.", "DESIGN.md §4 C15"),
 "C20": (True, "E2", "exhaustive enumeration of (L, bin, hop) schedules and of f32 phases on the real window code against closed forms",
         "Every (L<=24/40, bin, hop) x 2 windows x 3 frame formats: chunk count, chunk contents and size_hint before every next(); Hann at every f32 phase in [0,1] (thorough) or a 2^21-pattern grid (quick) and on f64 grids; Window iterator for n up to 64/1024.",
         "L bounded; f64 phases on a grid. Trusted: libm cos.", "DESIGN.md §4 C20"),
 "C09": (True, "E2", "exhaustive enumeration of small directed multigraphs x output node x container on the real Processor with instrumented nodes, against an independent reachability / in-edge-multiset / topological-order oracle",
         "All multigraphs (multiplicity 0..2, self-loops included) on <=3 nodes, all digraphs on 4 nodes (thorough: all loop-free digraphs on 5), every output node, Graph / StableGraph / StableGraph with four vacancy patterns, two consecutive process calls on a processor reused across the enumeration; sources()/sinks() on every graph.",
         "Node counts above 4 (5 in thorough) are not explored; random larger graphs are outside this family. Trusted: rustc/LLVM, petgraph, identification of inputs by buffer address.", "DESIGN.md §4 C09"),
 "C01": (True, "E2", "exhaustive enumeration of source values (complete domains up to 32 bit, documented lattices for 48/64 bit) for all 132 format pairs on the real conversion functions against an i128 amplitude-rescale reference, in two build profiles",
         "88 (thorough) ordered pairs are swept over every value of the source format through conv::<src>::to_<dst>, to_sample and from_sample; 48/64-bit sources over all 2^16 (quick) / 2^32 (thorough) top-bit patterns under several low-bit fills plus boundaries; order preservation, widening round trip and the via-intermediate law (1100+ triples) asserted directly; a second build with overflow checks turns any arithmetic overflow into a violation.",
         "48/64-bit sources are not enumerated completely (2^48..2^64 values); that the low bits cannot matter is only sampled structurally. Trusted: rustc/LLVM, i128 reference arithmetic (unit-tested against hand values).", "DESIGN.md §4 C01"),
 "C02": (True, "E2", "exhaustive enumeration of integer values and of f32 bit patterns (complete where feasible, documented lattices for f64 / 48 / 64 bit) on the real conversions against a bit-level round-to-nearest-even / exact-truncation reference",
         "Every value of the <=24-bit (thorough: <=32-bit) integer formats to f32/f64; every f32 in [-1,1) (thorough) to all 12 integer formats; every f32 to f64; all rounding decision points of f64->f32 around every enumerated f32; truncation boundaries and the inverse law for every integer value; lattices for f64 sources and 48/64-bit integers.",
         "f64 and 48/64-bit domains are covered on lattices aimed at rounding/truncation boundaries. Inputs outside [-1,1) are not fed to float->int. Trusted: rustc/LLVM, the integer RNE reference (cross-checked against hardware casts in unit tests).", "DESIGN.md §4 C02"),
 "C03": (True, "E2", "exhaustive enumeration of sample values x offset/gain alphabets (complete for 8/16-bit formats) and of frame widths 1..32 x 14 formats x every Frame method on the real code, against the reference arithmetic and per-channel sample application",
         "Identity laws over every value of the <=24-bit formats (thorough: <=32-bit), general add/mul laws over every 8/16-bit value x all offsets/gains of the alphabets (lattice above), bare-sample-as-frame laws; 448 frame instantiations x 9 contents x every Frame method with closure call order observed; release and overflow-checked builds.",
         "Values above 16/24 bits are covered on lattices; offsets/gains come from finite alphabets. Trusted: rustc/LLVM, hardware f32/f64 multiply, the reference conversions (C01/C02 references).", "DESIGN.md §4 C03"),
 "C04": (True, "E2", "bounded-exhaustive enumeration of adaptor programs (all trees to depth 2, all unary stacks to depth 3/4, thorough: all depth-3 trees over a small alphabet; 9 frame families incl. [i32;2], [i64;1] and the bare sample i32 whose values do not fit the float companion's mantissa, and two magnitude families (float lattice scaled by 2^-200 and by 2^20); scale probes with sources of 300 frames and delays up to usize::MAX) executed on the real adaptor structs against an AST interpreter with independent integer / float arithmetic and instrumented sources",
         "Every program of the bounded space is built from the real dasp_signal adaptors and run for source length + delays + 3 calls; frames are compared with the pointwise interpreter, every instrumented source must have been pulled exactly once per call (never under a delay's leading silence), inspect must see exactly what passes, and programs over a borrowed source must leave it at the right frame after every prefix length.",
         "Depth and source length are bounded (depth 2 trees, stacks of 3/4, sources of <=3 frames); right operands of add_amp/mul_amp are unary stacks. Trusted: rustc/LLVM, the reference arithmetic of common::refmodel (unit-tested; the same one C01-C03 use), the forwarding wrapper.", "DESIGN.md §4 C04"),
 "C05": (True, "E2", "the same bounded-exhaustive program enumeration, with an exhaustion algebra in the interpreter (exhausted-after-T-calls per node) and exact-count oracles for until_exhausted, lift, take and interleaved output",
         "For every program: is_exhausted() before and after every next(), three further calls after exhaustion, until_exhausted()/lift() yielding exactly T frames and then None for good, interleaved output yielding exactly T x channels samples, take(n) for every n up to T+2; interleaved sources of every sample count 0..3N+1 (trailing partial frame dropped).",
         "Same bounds as C04. Trusted: rustc/LLVM, the interpreter's exhaustion algebra as stated in the property.", "DESIGN.md §4 C05"),
 "C12": (True, "E1", "stateless exhaustive exploration of every A/B pull interleaving up to a length bound on the real Fork (fresh object per history, no state merging) + explicit-state stateright BFS to fixpoint on (lead, ring phase) via witness replay",
         "Every in-boundary interleaving of length 16 (quick) / 20 (thorough) for capacities 1..4 (thorough 1..6), every ring start offset, by_ref held / re-split every step / by_rc / by_ref-then-by_rc at every switch point; after every step: k-th frame of each branch, source pull count, both pending counts; fork() constructor panic on every non-empty ring.",
         "Interleavings longer than the bound are covered only by the merged run, which relies on the fork depending on positions only through (lead, ring phase); capacities above 6 not explored. Trusted: rustc/LLVM, stateright BFS.", "DESIGN.md §4 C12"),
 "C13": (True, "E1", "stateless exhaustive exploration of every send/next/drop history up to a depth bound on the real Bus (fresh object per history) + explicit-state stateright BFS to fixpoint on lag vectors via witness replay; backlog observed through a cfg-guarded hook; the alphabet includes dropping the Bus handle while outputs live on",
         "Every history to depth 12 (quick) / 15 (thorough) with <=3 live outputs and <=4 sends over an infinite and a 3-frame instrumented source: frames per output, attach index, pending counts, source pulls, backlog length == slowest lag (hook), is_exhausted; merged run with unbounded sends and lags <=4.",
         "Depth, live-output and lag bounds as stated; the merged run relies on the bus using only relative offsets. Trusted: rustc/LLVM, stateright BFS, the additive hook Bus::verif_backlog_len.", "DESIGN.md §4 C13"),
 "C14": (True, "E1", "stateless exhaustive exploration of every next/next_frames(k)/is_exhausted history from every (capacity, prefill, start offset, source length) initial state on the real Buffered + explicit-state stateright BFS to fixpoint via witness replay",
         "340 initial states in quick (capacity 1..4; thorough 1..5) x every (start,len) prefill x source length 0..2cap+1; every history to depth 5 (quick) / 7 (thorough); merged BFS on (ring start, ring len, pulled, delivered) to fixpoint; until_exhausted() from every initial state; oracle: prefill ++ source ++ equilibrium, pulls in units of capacity only on empty, exact exhaustion flag.",
         "Capacities above 5 and sources longer than 2cap+1 are not explored. Trusted: rustc/LLVM, stateright BFS.", "DESIGN.md §4 C14"),
 "C08": (True, "E2", "exhaustive enumeration of ratio histories (every per-frame ratio sequence over 4-letter alphabets to length 5/6, 21 constant ratios x every constructor, every setter switch point) x source lengths x interpolators x frame formats on the real Converter with an instrumented source, against exact rational positions; plus converters replaced mid-history by clone() / clone_from() copies",
         "For every configuration of the finite space the converter is run to exhaustion + 3: source pulls must equal floor(P_n) with P_n an exact rational (i128 x 2^-100), floor output = frame at the pulled index, linear output = exact blend within 4 ulp / 1 LSB and inside the two frames' interval, ratio 1 exact, is_exhausted() before every output, output counts for constant ratios; non-positive scale panics; labelled long runs for non-dyadic ratios.",
         "Ratios come from finite alphabets (dyadic ones are checked exactly, others with a float tolerance of n*2^-50); sources of <=8 frames. Trusted: rustc/LLVM, IEEE division for mirrored ratio arithmetic.", "DESIGN.md §4 C08"),
 "C16": (True, "E2", "exhaustive enumeration of node configurations (input count x buffers per input x output buffers x wrapper type x consecutive calls) on the real stock nodes inside real graphs, against per-node reference functions on position-coded dyadic buffers, plus every assignment of buffer content classes (tiny, subnormal, huge, signed zeros, infinities, NaN payloads) to the inputs of each stock node",
         "Sum/SumBuffers/Pass over every combination of 0..3 inputs with 0..3 buffers each and 0..3 output buffers under 9 wrapper types (plain, BoxedNode, BoxedNodeSend, Box, &mut, fn pointer, dyn Fn, dyn FnMut, nested GraphNode), 3 calls; Delay over ring lengths {1,2,63,64,65,130} per channel with mismatched channel counts, 4 calls; boxed signal node with 0..3 output buffers, 64 pulls per call.",
         "Counts bounded by 3; Pass with several inputs is not checked (the property speaks of a single input). Trusted: rustc/LLVM, petgraph's incoming-neighbour order for wiring the nested-graph comparison.", "DESIGN.md §4 C16"),
 "C17": (True, "E2", "exhaustive enumeration of step alphabets, of every per-frame frequency sequence over 4-letter alphabets to length 5/6, and of seed / phase grids on the real oscillators and noise sources, against exact dyadic phase arithmetic and closed-form waveforms (sine within the rounding of its argument plus 3 ulp)",
         "Phase law exact for 10 dyadic steps x 3 rates, tolerant for 8 non-dyadic pairs over 10^6 (thorough 10^7) frames; sine/saw/square compared exactly with closed forms at the lock-step phase; one frequency frame consumed per output for every sequence; noise purity (clone, restart, seed shift) and range over 9 boundary seeds x 2^20 frames and a dense seed grid; simplex range/purity over every multiple of 2^-8 in [0,65536).",
         "Frequencies, rates and seeds come from finite alphabets; seeds whose counter would overflow 2^64 are excluded. Trusted: rustc/LLVM, libm sin.", "DESIGN.md §4 C17"),
 "C18": (True, "E2", "exhaustive enumeration of (depth, priming level, fractional position, input history over a 5-letter alphabet) on the real Sinc interpolator; linearity decided by superposition of impulse responses measured on the same code",
         "Depths 1..8 (thorough 1..16, 32, 50), three frame formats: ratio-1 transparency through the Converter for every source over the alphabet up to length 4/5 plus impulse/step/ramp; linearity and scaling at 8/16 positions and every priming level for every history to length 3/5; finiteness; constant reproduction within 1% at 256 positions; reset followed by every continuation of length 3 equals a fresh interpolator.",
         "Finite grids of depth, position and amplitude. Trusted: rustc/LLVM; libm sin/cos are inside both sides of the linearity comparison.", "DESIGN.md §4 C18"),
 "C19": (True, "E2", "exhaustive sweeps of the rectifiers over every value of the <=24-bit formats (thorough <=32-bit and every f32) and exhaustive enumeration of follower histories (inputs and setter calls) to depth 4/5 over 20 detector families x 64 time-constant pairs, plus a sweep of ~7200 time constants (every whole number of frames to 4096, quarter steps, audio-typical times), on the real Detector",
         "Rectifier functions and structs on bare samples and frames against |amplitude| / clamp references; follower: every history over next(5 letters)/set_attack(3)/set_release(3), each output checked against the one-pole formula evaluated from the observed previous output and the detected value, betweenness, zero-time exactness, monotone convergence on constant input, detect_envelope adaptor (and setters) equivalence, every Detector convenience constructor == Detector::new.",
         "Follower inputs and time constants come from finite alphabets; integer alphabets exclude the format minimum. Trusted: rustc/LLVM, f64 exp for the gain, the real detect component as source of the detected value.", "DESIGN.md §4 C19"),
 "C07": (True, "E2", "bounded-exhaustive audit: every transition of the enumerated drivers (all depth<=2 adaptor programs, every ring-buffer raw state, component pipelines, every digraph on <=4 nodes with stock nodes) is executed on the real code between two samples of a counting global allocator",
         "Allocator events (alloc + realloc + free, thread-local counters, self-tested) must be zero inside every bracket: each next()/is_exhausted()/iterator step of every adaptor tree of C04's quick space in 4 frame families, every Bounded/Fixed operation from every raw state (array, Vec, Box storage), sample/frame/slice/rectifier/RMS/envelope/interpolator/converter/window/oscillator operations, buffered, fork by_ref (by_rc after creation), 2nd/3rd process call on every digraph with <=3 nodes and (thorough: all, quick: every 7th) 4-node digraph with stock nodes; bus backlog bounded when pulled in step.",
         "Coverage is the explicit catalogue written to the evidence file, at reduced bounds; 'arbitrarily long runs' rests on finite explored state spaces and periodicity (argued, not enumerated). One recorded finding (graph.regrow-on-different-graph, see known_findings.txt). Trusted: rustc/LLVM, the counting allocator.", "DESIGN.md §4 C07"),
}
ALL = ["C%02d" % i for i in range(1, 21)]

def main():
    checks, na = [], []
    for pid in ALL:
        if pid in T and T[pid][0]:
            _, eng, tech, text, note, ref = T[pid]
            checks.append({
                "property_id": pid,
                "quick_cmd": "./check %s quick" % pid,
                "thorough_cmd": "./check %s thorough" % pid,
                "evidence_file": "/verif/evidence/%s.json" % pid,
                "replay_cmd_template": "./check %s --replay {path}" % pid,
                "engine": eng,
                "level_claimed": {"category": "model_checking", "text": text, "design_ref": ref},
                "level_note": note,
                "technique": tech,
            })
        else:
            na.append({"property_id": pid, "reason": "check not built yet in this round (planned, see DESIGN.md §4 %s); bounded-exhaustive exploration applies to it" % pid})
    hooks = subprocess.run(["git", "-C", "/repo", "log", "--format=%h %s", "--grep=^hook:"], capture_output=True, text=True).stdout.split("\n")
    man = {
        "version": 1,
        "setup_cmd": "cd /verif && ./check --build-all",
        "hooks": {
            "guard": "rustaudio_dasp_verif",
            "enable": "RUSTFLAGS=--cfg rustaudio_dasp_verif (set for every harness build by /verif/harness/.cargo/config.toml [build] rustflags; own target dir /verif/harness/target)",
            "baseline_off_cmd": "cd /repo && cargo test --workspace --no-fail-fast --offline",
            "source_commits": [h.split(" ")[0] for h in hooks if h.strip()],
            "add_only": True,
        },
        "engines": [
            {"name": "E1", "path": "/verif/harness/checks", "serves_properties": [c["property_id"] for c in checks if c["engine"] == "E1"], "kind_free_text": E1},
            {"name": "E2", "path": "/verif/harness/checks", "serves_properties": [c["property_id"] for c in checks if c["engine"] == "E2"], "kind_free_text": E2},
        ],
        "checks": checks,
        "not_applicable": na,
        "notes": "All checks are bounded-exhaustive explorations of the real dasp code (no sampling); ./check is the driver (child process, wall/address-space caps, crash/hang/panic replay). Every check except C07 runs in a release build and again with debug assertions and overflow checks on (dbg parts, quick bounds); C15 in all four combinations; C11 also in the no_std build. known_findings.txt lists fixed defects and the two recorded findings (C07 graph.regrow-on-different-graph, C18 sinc.int-partial-sum-overflow); seeded/ holds 153 property-breaking changes (all detected by the quick check of their property), benign/ 58 behaviour-preserving ones (all quiet on the properties they preserve).",
    }
    with open(os.path.join(ROOT, "MANIFEST.json"), "w") as f:
        json.dump(man, f, indent=1)
    print("checks:", [c["property_id"] for c in checks], "not claimed:", [n["property_id"] for n in na])

if __name__ == "__main__":
    main()
